//! C15, history layer under Miri (thorough tier): the same seeded histories as `sim run --layer
//! c15-hist`, executed by Miri's interpreter so that every `get_unchecked`, `split_at` and slice
//! the explored histories reach is checked for undefined behaviour (Stacked Borrows, bounds,
//! UTF-8 validity of produced `&str`).
//!
//!   cargo +nightly miri run --offline --bin hist -- <VERIF_SEED> <runs> <config>

#![allow(dead_code)]

#[path = "../../../sim/src/bigtext.rs"]
mod bigtext;
#[path = "../../../sim/src/c15.rs"]
mod c15;
#[path = "../../../sim/src/harness.rs"]
mod harness;
#[path = "../../../sim/src/json.rs"]
mod json;
#[path = "../../../sim/src/model.rs"]
mod model;
#[path = "../../../sim/src/rng.rs"]
mod rng;

use harness::Layer;

fn main() {
    let args: Vec<String> = std::env::args().collect();
    let seed: u64 = args.get(1).and_then(|s| s.parse().ok()).unwrap_or(1);
    let runs: u64 = args.get(2).and_then(|s| s.parse().ok()).unwrap_or(200);
    let config: u64 = args.get(3).and_then(|s| s.parse().ok()).unwrap_or(1);
    harness::install_panic_hook();
    let layer = c15::HistLayer;
    let mut stats = harness::Stats::new(layer.counter_names().len());
    let mut steps = 0u64;
    for run in 0..runs {
        let rs = harness::run_seed_for(&layer, seed, config, run);
        let case = layer.generate(rs, config, 0);
        let out = layer.execute(&case, &mut stats);
        steps += out.steps;
        if let Some(v) = out.violation {
            println!(
                "MIRI-HIST-VIOLATION run={run} key={} detail={} case={}",
                v.key(),
                v.detail,
                layer.case_to_json(&case).to_compact()
            );
            std::process::exit(1);
        }
    }
    println!("ok seed={seed} config={config} runs={runs} steps={steps} yielded_lines={}", stats.counters[c15::C::yielded_lines as usize]);
}
