//! C15, thread-schedule layer (thorough tier): real `std::thread`s share clones of one
//! lazily indexed `SourceFile` (real `once_cell::sync::OnceCell` + `std::sync::Arc`) and of a
//! `LineIndex`; run under Miri, whose seeded scheduler decides every preemption
//! (`-Zmiri-many-seeds`): one Miri seed is one exactly repeatable interleaving, with data-race
//! and undefined-behaviour detection on. Whoever initialises the index, every view must
//! answer like the naive model.
//!
//!   cargo +nightly miri run --offline -- <VERIF_SEED> <script>
//!
//! argv only (never the shell environment) carries the seed, see DESIGN.md.

#[path = "../../../sim/src/model.rs"]
#[allow(dead_code)]
mod model;
#[path = "../../../sim/src/rng.rs"]
#[allow(dead_code)]
mod rng;

use rng::{derive, Rng};
use rustpython_parser_vendored::source_location::newlines::{StrExt, UniversalNewlineIterator};
use rustpython_parser_vendored::source_location::{LineIndex, OneIndexed, SourceFile, SourceFileBuilder};
use rustpython_parser_vendored::text_size::{TextRange, TextSize};
use std::sync::{Arc, Barrier};

const TEXTS: &[&str] = &[
    "a\r\nbé\rc\n",
    "\u{feff}x = 1\n\ny = 😀\r\n",
    "\r\n\r",
    "é",
    "",
    "def f():\r    return 'ü'\r\n# end",
    "# a long ASCII prefix before the first non-ASCII character: 0123456789 0123456789 0123456789 é = 1\nz = 'ü→😀'\n",
    "λ = 'ü'",
    "x = 1\ny = 2\n",
    "\u{feff}é\n\u{feff}",
];

/// Private files of the worker threads: each thread also builds its own lazily indexed
/// `SourceFile` from one of these and queries it, so that any state the library shares
/// between *different* files (not only between clones of one file) races under the scheduler.
const PRIVATE_TEXTS: &[&str] = &["x = 1", "é = 'ü'", "\u{feff}a", "", "λ", "a\r\nb"];

fn private_file_check(text: &str, who: usize) {
    let sf = SourceFileBuilder::new(format!("private{who}.py"), text).finish();
    let sc = sf.to_source_code();
    assert_eq!(sc.line_count(), model::rows(text).len(), "private file {text:?} line_count (thread {who})");
    for o in model::boundaries(text) {
        let loc = sc.source_location(TextSize::new(o as u32));
        assert_eq!(
            (loc.row.get(), loc.column.get()),
            model::row_col(text, o),
            "private file {text:?} source_location({o}) (thread {who})"
        );
    }
}

#[derive(Clone, Copy, Debug)]
enum Op {
    Touch,
    Query(u32),
    Row(u32),
    Slice(u32, u32),
    CloneDrop,
    Lines(bool),
    IndexQuery(u32),
}

fn gen_ops(r: &mut Rng, n: usize) -> Vec<Op> {
    (0..n)
        .map(|i| match if i == 0 { 1 + r.below(2) * 6 } else { r.below(8) } {
            0 => Op::Touch,
            1 | 2 => Op::Query(r.next_u32()),
            3 => Op::Row(r.next_u32()),
            4 => Op::Slice(r.next_u32(), r.next_u32()),
            5 => Op::CloneDrop,
            6 => Op::Lines(r.chance(1, 2)),
            _ => Op::IndexQuery(r.next_u32()),
        })
        .collect()
}

fn run_ops(text: &str, sf: SourceFile, ix: LineIndex, ops: &[Op], who: usize) {
    let mut bs = model::boundaries(text);
    if text.len() > 2000 {
        // the long-line script: only offsets far into the line are interesting (and cheap enough)
        let n = bs.len();
        bs = bs[n - 64..].to_vec();
    }
    let table = model::RowTable::new(text);
    let rows = table.rows.clone();
    for (i, op) in ops.iter().enumerate() {
        let ctx = || format!("thread {who} op #{i} {op:?} text {text:?}");
        match *op {
            Op::Touch => {
                let sc = sf.to_source_code();
                assert_eq!(sc.line_count(), rows.len(), "line_count: {}", ctx());
                assert_eq!(sc.text(), text, "text: {}", ctx());
            }
            Op::Query(a) => {
                let o = bs[a as usize % bs.len()];
                let sc = sf.to_source_code();
                let loc = sc.source_location(TextSize::new(o as u32));
                assert_eq!((loc.row.get(), loc.column.get()), table.row_col(o), "source_location({o}): {}", ctx());
                assert_eq!(sc.line_index(TextSize::new(o as u32)).get(), table.row_col(o).0, "line_index({o}): {}", ctx());
            }
            Op::Row(a) => {
                let r = a as usize % rows.len();
                let sc = sf.to_source_code();
                let one = OneIndexed::from_zero_indexed(r as u32);
                let range = sc.line_range(one);
                assert_eq!((range.start().to_usize(), range.end().to_usize()), rows[r], "line_range: {}", ctx());
                assert_eq!(sc.line_text(one), &text[rows[r].0..rows[r].1], "line_text: {}", ctx());
                assert_eq!(sc.line_start(one).to_usize(), rows[r].0, "line_start: {}", ctx());
                assert_eq!(sc.line_end(one).to_usize(), rows[r].1, "line_end: {}", ctx());
            }
            Op::Slice(a, b) => {
                let (mut x, mut y) = (bs[a as usize % bs.len()], bs[b as usize % bs.len()]);
                if x > y {
                    std::mem::swap(&mut x, &mut y);
                }
                let r = TextRange::new(TextSize::new(x as u32), TextSize::new(y as u32));
                assert_eq!(sf.slice(r), &text[x..y], "slice: {}", ctx());
                assert_eq!(sf.to_source_code().slice(r), &text[x..y], "slice: {}", ctx());
            }
            Op::CloneDrop => {
                let c = sf.clone();
                let d = ix.clone();
                assert_eq!(c.source_text(), text);
                assert_eq!(d.line_starts().len(), rows.len(), "clone of index: {}", ctx());
                drop(c);
                drop(d);
            }
            Op::Lines(back) => {
                let want = model::split_lines(text);
                let it = UniversalNewlineIterator::from(sf.source_text());
                let got: Vec<(usize, String)> = if back {
                    let mut v: Vec<_> = it.rev().map(|l| (l.start().to_usize(), l.as_full_str().to_string())).collect();
                    v.reverse();
                    v
                } else {
                    text.universal_newlines().map(|l| (l.start().to_usize(), l.as_full_str().to_string())).collect()
                };
                let want: Vec<(usize, String)> = want.iter().map(|l| (l.start, text[l.start..l.full_end].to_string())).collect();
                assert_eq!(got, want, "lines: {}", ctx());
            }
            Op::IndexQuery(a) => {
                let o = bs[a as usize % bs.len()];
                let loc = ix.source_location(TextSize::new(o as u32), text);
                assert_eq!((loc.row.get(), loc.column.get()), table.row_col(o), "LineIndex::source_location({o}): {}", ctx());
            }
        }
    }
}

fn main() {
    let args: Vec<String> = std::env::args().collect();
    let seed: u64 = args.get(1).and_then(|s| s.parse().ok()).unwrap_or(1);
    let script: u64 = args.get(2).and_then(|s| s.parse().ok()).unwrap_or(0);
    let mut r = Rng::new(derive(seed, &[0xC15, script]));
    let text: Arc<str> = if script % 6 == 3 {
        // one physical line of several KiB with non-ASCII characters at both ends, then a short line
        format!("é{}ü{}\nz = 'ü'\n", "x".repeat(4400), "y".repeat(70)).into()
    } else {
        TEXTS[(script as usize + r.below(2) as usize * 5) % TEXTS.len()].into()
    };
    let text_owner = text.clone();
    let text: &str = &text_owner;
    let long_line = text.len() > 2000;
    // the long-line script is all about many concurrent column queries far into one line
    let n_threads = if long_line { 3 } else { 2 + (script % 3) as usize };
    let prebuilt = r.chance(1, 4);
    let ix = LineIndex::from_source_text(text);
    let sf = if prebuilt {
        SourceFileBuilder::new("t.py", text).line_index(ix.clone()).finish()
    } else {
        SourceFileBuilder::new("t.py", text).finish() // lazily indexed: threads race to build it
    };
    let barrier = Arc::new(Barrier::new(n_threads));
    let mut handles = Vec::new();
    for t in 0..n_threads {
        let n_ops = if long_line { 8 } else { 4 + r.below(3) as usize };
        let mut ops = gen_ops(&mut r, n_ops);
        if long_line {
            for op in ops.iter_mut() {
                if !matches!(op, Op::Query(_) | Op::IndexQuery(_)) {
                    *op = Op::Query(r.next_u32());
                }
            }
        }
        let (sf, ix, barrier) = (sf.clone(), ix.clone(), barrier.clone());
        let text = text_owner.clone();
        let private = PRIVATE_TEXTS[r.below(PRIVATE_TEXTS.len() as u64) as usize];
        let private_first = r.chance(1, 2);
        handles.push(std::thread::spawn(move || {
            barrier.wait(); // start together so that the first touch really races
            if private_first {
                private_file_check(private, t);
            }
            run_ops(&text, sf, ix, &ops, t);
            if !private_first {
                private_file_check(private, t);
            }
            // handles are dropped here, on this thread: the last drop lands on a scheduled thread
        }));
    }
    // the main thread holds (and at a seeded point drops) its own handles meanwhile
    if r.chance(1, 2) {
        drop(sf);
        drop(ix);
        for h in handles {
            h.join().expect("worker panicked");
        }
    } else {
        for h in handles {
            h.join().expect("worker panicked");
        }
        run_ops(text, sf, ix, &[Op::Touch, Op::Query(3), Op::Row(1)], 99);
    }
    println!("ok seed={seed} script={script} threads={n_threads} prebuilt={prebuilt} text={:?}", text.chars().take(40).collect::<String>());
}
