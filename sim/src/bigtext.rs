//! Rare size classes of texts, shared by the generators of all layers.

use crate::rng::Rng;

/// Rare size classes: a very long line, very many lines, a text beyond 2^16 bytes — the places
/// where a narrow integer, a threshold or a chunked scan would show.
/// `thorough`: also texts of up to 32 MiB (2^25) in the power-of-two class.
pub fn gen_big_text_scaled(r: &mut Rng, thorough: bool) -> String {
    if thorough && r.chance(1, 30) {
        let e = ["\n", "\r\n", "\r"][r.below(3) as usize];
        let k = r.range(24, 25);
        let boundary = 1usize << k;
        let mut text = String::with_capacity(boundary + 64);
        while text.len() + 70 < boundary {
            for _ in 0..r.below(60) {
                text.push('y');
            }
            text.push_str(e);
        }
        let item = *r.pick(&["\r\n", "\r", "é", "\r\n\r\n"]);
        let before = r.below(item.len() as u64 + 1) as usize;
        while text.len() + before < boundary {
            text.push('p');
        }
        text.push_str(item);
        text.push_str("z = é");
        text.push_str(e);
        return text;
    }
    gen_big_text(r)
}

pub fn gen_big_text(r: &mut Rng) -> String {
    let mut text = String::new();
    if r.chance(1, 5) {
        text.push('\u{feff}');
    }
    let eols = ["\n", "\r\n", "\r"];
    match r.below(7) {
        0 => {
            // one very long line (300..3000 columns) between two short ones
            text.push_str("a = 1");
            text.push_str(eols[r.below(3) as usize]);
            let unit = *r.pick(&["x", "ab ", "é", "xy→", "0123456789"]);
            for _ in 0..r.range(300, 3000) {
                text.push_str(unit);
            }
            text.push_str(eols[r.below(3) as usize]);
            text.push_str("b = é");
        }
        1 => {
            // very many short lines (300..3000) of random lengths, now and then a non-ASCII one
            let e = r.below(4);
            for _ in 0..r.range(300, 3000) {
                match r.below(12) {
                    0 => text.push_str("é = 1"),
                    1 | 2 => {}
                    3 => text.push_str("😀"),
                    k => {
                        for _ in 0..k - 3 {
                            text.push('x');
                        }
                    }
                }
                text.push_str(eols[if e < 3 { e as usize } else { r.below(3) as usize }]);
            }
        }
        6 => {
            // more than 2^16 lines (row numbers beyond 16 bits), a non-ASCII line near the end
            let e = r.below(3) as usize;
            let n = r.range(65_600, 70_000);
            for i in 0..n {
                if i + 3 == n {
                    text.push_str("é = 'ü'");
                } else if i % 1000 == 7 {
                    text.push_str("yy");
                } else {
                    text.push('x');
                }
                text.push_str(eols[e]);
            }
            text.push_str("end");
        }
        4 | 5 => {
            // something interesting placed exactly across a power-of-two offset (block-wise and
            // word-wise scanners): random short lines up to just below 2^k, padding, then a line
            // break / multi-byte character straddling the boundary, then some more lines
            // 2^3 … 2^16 mostly; now and then up to 2^23 (block-wise scanners with large blocks)
            let k = if r.chance(1, 8) { r.range(17, 23) } else { r.range(3, 16) };
            let boundary = 1usize << k;
            let e = r.below(3) as usize;
            let filler = if boundary > (1 << 17) { 60 } else { 9 };
            while text.len() + filler as usize + 4 < boundary {
                for _ in 0..r.below(filler) {
                    text.push('y');
                }
                text.push_str(eols[e]);
            }
            let item = *r.pick(&["\r\n", "\r", "\n", "é", "😀", "→", "\r\n\r\n", "\x0c\r\n"]);
            let before = r.below(item.len() as u64 + 1) as usize; // bytes of the item in front of the boundary
            while text.len() + before < boundary {
                text.push('p');
            }
            text.push_str(item);
            for _ in 0..r.range(1, 6) {
                text.push_str("z = é");
                text.push_str(eols[e]);
            }
        }
        2 => {
            // beyond 2^16 bytes in total, with rows beyond 2^8 and one line beyond 2^16 columns
            for i in 0..300u32 {
                text.push_str(if i == 270 { "ü" } else { "y" });
                text.push_str(eols[(i % 3) as usize]);
            }
            // one line beyond 2^16 columns — now and then far beyond (2^18 … 2^20 characters), where a
            // narrow accumulator in a column computation would wrap
            let n = *r.pick(&[66_000u64, 66_000, 66_000, 300_000, 600_000, 1_200_000]);
            let unit = if n > 66_000 && r.chance(1, 2) { "é" } else { "z" };
            for _ in 0..n {
                text.push_str(unit);
            }
            text.push_str("é\n");
            text.push_str("tail");
        }
        _ if r.chance(1, 2) => {
            // power-of-two boundaries: lines of exactly 127/128/255/256 bytes
            for n in [127usize, 128, 255, 256, 129, 257] {
                for _ in 0..n - 1 {
                    text.push('q');
                }
                text.push_str(if r.chance(1, 3) { "\r\n" } else { "\n" });
            }
        }
        _ => {
            // line-length sweep: consecutive lines of every byte length from `lo` upwards, so
            // that a threshold measured from the START OF A LINE (a "short line" fast path, a
            // small-buffer limit, a vector width) is crossed by a line break of every kind,
            // whatever the constant is (anything below ~580 bytes)
            let lo = r.below(530) as usize;
            let n = r.range(8, 48) as usize;
            let e = r.below(5) as usize; // CRLF twice as likely: its two bytes can be split
            let non_ascii = r.chance(1, 4);
            for len in lo..lo + n {
                let mut rest = len;
                if non_ascii && rest >= 2 {
                    text.push('é');
                    rest -= 2;
                }
                for _ in 0..rest {
                    text.push('w');
                }
                text.push_str(["\n", "\r\n", "\r", "\r\n", "\r\n"][e]);
            }
            if r.chance(1, 2) {
                text.push_str("end");
            }
        }
    }
    text
}


/// "Medium" texts: a handful of lines of ordinary source-file width (0 … 600 bytes). The dense
/// generators stop well below 100 bytes per line and the big classes start at hundreds of lines,
/// so a threshold measured from the start of a line (a "short line" fast path with a fixed
/// width, a small-buffer limit, a vector width) would otherwise be crossed by a line break only
/// by luck. Half of the texts use consecutive lengths (L, L+1, L+2, …: whatever the constant is,
/// its neighbours are there too), half independent ones.
pub fn gen_medium_text(r: &mut Rng) -> String {
    let mut text = String::new();
    if r.chance(1, 8) {
        text.push('\u{feff}');
    }
    let k = r.range(2, 6) as usize;
    let consecutive = r.chance(1, 2);
    let lo = r.below(600) as usize;
    let fixed_eol = r.below(6) as usize;
    for i in 0..k {
        let len = if consecutive { lo + i } else { r.below(600) as usize };
        let mut rest = len;
        if rest >= 2 && r.chance(1, 6) {
            text.push('é');
            rest -= 2;
        }
        for _ in 0..rest {
            text.push('w');
        }
        let e = if fixed_eol < 3 { fixed_eol } else { r.below(5) as usize };
        if i + 1 < k || r.chance(2, 3) {
            text.push_str(["\n", "\r\n", "\r", "\r\n", "\r\n"][e]);
        }
    }
    text
}
