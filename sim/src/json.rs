//! Minimal JSON value, writer and parser (no external crates: everything must build offline
//! from the repository's own lock file).

use std::fmt::Write;

#[derive(Clone, Debug, PartialEq)]
pub enum J {
    Null,
    Bool(bool),
    Int(i64),
    Float(f64),
    Str(String),
    Arr(Vec<J>),
    Obj(Vec<(String, J)>),
}

impl From<&str> for J {
    fn from(s: &str) -> J {
        J::Str(s.to_string())
    }
}
impl From<String> for J {
    fn from(s: String) -> J {
        J::Str(s)
    }
}
impl From<bool> for J {
    fn from(b: bool) -> J {
        J::Bool(b)
    }
}
impl From<i64> for J {
    fn from(i: i64) -> J {
        J::Int(i)
    }
}
impl From<u64> for J {
    fn from(i: u64) -> J {
        J::Int(i as i64)
    }
}
impl From<u32> for J {
    fn from(i: u32) -> J {
        J::Int(i as i64)
    }
}
impl From<usize> for J {
    fn from(i: usize) -> J {
        J::Int(i as i64)
    }
}
impl From<f64> for J {
    fn from(f: f64) -> J {
        J::Float(f)
    }
}
impl<T: Into<J>> From<Vec<T>> for J {
    fn from(v: Vec<T>) -> J {
        J::Arr(v.into_iter().map(Into::into).collect())
    }
}

pub fn obj(fields: Vec<(&str, J)>) -> J {
    J::Obj(fields.into_iter().map(|(k, v)| (k.to_string(), v)).collect())
}

impl J {
    pub fn get(&self, key: &str) -> Option<&J> {
        match self {
            J::Obj(fs) => fs.iter().find(|(k, _)| k == key).map(|(_, v)| v),
            _ => None,
        }
    }
    pub fn as_str(&self) -> Option<&str> {
        match self {
            J::Str(s) => Some(s),
            _ => None,
        }
    }
    pub fn as_i64(&self) -> Option<i64> {
        match self {
            J::Int(i) => Some(*i),
            J::Float(f) if f.fract() == 0.0 => Some(*f as i64),
            _ => None,
        }
    }
    pub fn as_u64(&self) -> Option<u64> {
        self.as_i64().map(|i| i as u64)
    }
    pub fn as_bool(&self) -> Option<bool> {
        match self {
            J::Bool(b) => Some(*b),
            _ => None,
        }
    }
    pub fn as_arr(&self) -> Option<&[J]> {
        match self {
            J::Arr(a) => Some(a),
            _ => None,
        }
    }
    pub fn set(&mut self, key: &str, val: J) {
        if let J::Obj(fs) = self {
            if let Some(slot) = fs.iter_mut().find(|(k, _)| k == key) {
                slot.1 = val;
            } else {
                fs.push((key.to_string(), val));
            }
        }
    }

    pub fn to_pretty(&self) -> String {
        let mut out = String::new();
        self.write(&mut out, 0, true);
        out.push('\n');
        out
    }
    pub fn to_compact(&self) -> String {
        let mut out = String::new();
        self.write(&mut out, 0, false);
        out
    }

    fn write(&self, out: &mut String, ind: usize, pretty: bool) {
        match self {
            J::Null => out.push_str("null"),
            J::Bool(b) => out.push_str(if *b { "true" } else { "false" }),
            J::Int(i) => {
                let _ = write!(out, "{}", i);
            }
            J::Float(f) => {
                if f.is_finite() {
                    if f.fract() == 0.0 && f.abs() < 1e15 {
                        let _ = write!(out, "{:.1}", f);
                    } else {
                        let _ = write!(out, "{}", f);
                    }
                } else {
                    out.push_str("null");
                }
            }
            J::Str(s) => write_str(out, s),
            J::Arr(a) => {
                if a.is_empty() {
                    out.push_str("[]");
                    return;
                }
                // short scalar arrays on one line
                let scalar = a.iter().all(|x| !matches!(x, J::Arr(_) | J::Obj(_)));
                out.push('[');
                for (i, x) in a.iter().enumerate() {
                    if i > 0 {
                        out.push(',');
                        if scalar && pretty {
                            out.push(' ');
                        }
                    }
                    if pretty && !scalar {
                        out.push('\n');
                        push_indent(out, ind + 1);
                    }
                    x.write(out, ind + 1, pretty);
                }
                if pretty && !scalar {
                    out.push('\n');
                    push_indent(out, ind);
                }
                out.push(']');
            }
            J::Obj(fs) => {
                if fs.is_empty() {
                    out.push_str("{}");
                    return;
                }
                out.push('{');
                for (i, (k, v)) in fs.iter().enumerate() {
                    if i > 0 {
                        out.push(',');
                    }
                    if pretty {
                        out.push('\n');
                        push_indent(out, ind + 1);
                    }
                    write_str(out, k);
                    out.push(':');
                    if pretty {
                        out.push(' ');
                    }
                    v.write(out, ind + 1, pretty);
                }
                if pretty {
                    out.push('\n');
                    push_indent(out, ind);
                }
                out.push('}');
            }
        }
    }
}

fn push_indent(out: &mut String, n: usize) {
    for _ in 0..n {
        out.push(' ');
    }
}

fn write_str(out: &mut String, s: &str) {
    out.push('"');
    for c in s.chars() {
        match c {
            '"' => out.push_str("\\\""),
            '\\' => out.push_str("\\\\"),
            '\n' => out.push_str("\\n"),
            '\r' => out.push_str("\\r"),
            '\t' => out.push_str("\\t"),
            c if (c as u32) < 0x20 || c == '\u{feff}' || c == '\u{7f}' => {
                let _ = write!(out, "\\u{:04x}", c as u32);
            }
            c => out.push(c),
        }
    }
    out.push('"');
}

pub fn parse(src: &str) -> Result<J, String> {
    let mut p = P {
        b: src.as_bytes(),
        i: 0,
    };
    p.ws();
    let v = p.value()?;
    p.ws();
    if p.i != p.b.len() {
        return Err(format!("trailing data at byte {}", p.i));
    }
    Ok(v)
}

struct P<'a> {
    b: &'a [u8],
    i: usize,
}

impl P<'_> {
    fn ws(&mut self) {
        while self.i < self.b.len() && matches!(self.b[self.i], b' ' | b'\n' | b'\r' | b'\t') {
            self.i += 1;
        }
    }
    fn eat(&mut self, lit: &str) -> bool {
        if self.b[self.i..].starts_with(lit.as_bytes()) {
            self.i += lit.len();
            true
        } else {
            false
        }
    }
    fn value(&mut self) -> Result<J, String> {
        if self.i >= self.b.len() {
            return Err("unexpected end".into());
        }
        if self.eat("null") {
            return Ok(J::Null);
        }
        if self.eat("true") {
            return Ok(J::Bool(true));
        }
        if self.eat("false") {
            return Ok(J::Bool(false));
        }
        match self.b[self.i] {
            b'"' => Ok(J::Str(self.string()?)),
            b'[' => {
                self.i += 1;
                let mut a = Vec::new();
                self.ws();
                if self.i < self.b.len() && self.b[self.i] == b']' {
                    self.i += 1;
                    return Ok(J::Arr(a));
                }
                loop {
                    self.ws();
                    a.push(self.value()?);
                    self.ws();
                    match self.b.get(self.i) {
                        Some(b',') => self.i += 1,
                        Some(b']') => {
                            self.i += 1;
                            return Ok(J::Arr(a));
                        }
                        _ => return Err(format!("expected , or ] at byte {}", self.i)),
                    }
                }
            }
            b'{' => {
                self.i += 1;
                let mut fs = Vec::new();
                self.ws();
                if self.i < self.b.len() && self.b[self.i] == b'}' {
                    self.i += 1;
                    return Ok(J::Obj(fs));
                }
                loop {
                    self.ws();
                    let k = self.string()?;
                    self.ws();
                    if self.b.get(self.i) != Some(&b':') {
                        return Err(format!("expected : at byte {}", self.i));
                    }
                    self.i += 1;
                    self.ws();
                    let v = self.value()?;
                    fs.push((k, v));
                    self.ws();
                    match self.b.get(self.i) {
                        Some(b',') => self.i += 1,
                        Some(b'}') => {
                            self.i += 1;
                            return Ok(J::Obj(fs));
                        }
                        _ => return Err(format!("expected , or }} at byte {}", self.i)),
                    }
                }
            }
            _ => self.number(),
        }
    }
    fn number(&mut self) -> Result<J, String> {
        let st = self.i;
        while self.i < self.b.len()
            && matches!(self.b[self.i], b'0'..=b'9' | b'-' | b'+' | b'.' | b'e' | b'E')
        {
            self.i += 1;
        }
        let s = std::str::from_utf8(&self.b[st..self.i]).unwrap();
        if s.is_empty() {
            return Err(format!("unexpected byte at {}", st));
        }
        if let Ok(i) = s.parse::<i64>() {
            Ok(J::Int(i))
        } else {
            s.parse::<f64>().map(J::Float).map_err(|e| format!("bad number {s}: {e}"))
        }
    }
    fn string(&mut self) -> Result<String, String> {
        if self.b.get(self.i) != Some(&b'"') {
            return Err(format!("expected string at byte {}", self.i));
        }
        self.i += 1;
        let mut out = String::new();
        loop {
            let Some(&c) = self.b.get(self.i) else {
                return Err("unterminated string".into());
            };
            match c {
                b'"' => {
                    self.i += 1;
                    return Ok(out);
                }
                b'\\' => {
                    self.i += 1;
                    let e = *self.b.get(self.i).ok_or("bad escape")?;
                    self.i += 1;
                    match e {
                        b'"' => out.push('"'),
                        b'\\' => out.push('\\'),
                        b'/' => out.push('/'),
                        b'n' => out.push('\n'),
                        b'r' => out.push('\r'),
                        b't' => out.push('\t'),
                        b'b' => out.push('\u{8}'),
                        b'f' => out.push('\u{c}'),
                        b'u' => {
                            let hi = self.hex4()?;
                            let cp = if (0xD800..0xDC00).contains(&hi) {
                                if !self.eat("\\u") {
                                    return Err("lone surrogate".into());
                                }
                                let lo = self.hex4()?;
                                0x10000 + ((hi - 0xD800) << 10) + (lo - 0xDC00)
                            } else {
                                hi
                            };
                            out.push(char::from_u32(cp).ok_or("bad code point")?);
                        }
                        _ => return Err("bad escape".into()),
                    }
                }
                _ => {
                    // copy one UTF-8 scalar (the input is a &str, so it is valid UTF-8; decode only
                    // the bytes of this scalar — validating the whole rest here would be quadratic)
                    let n = match c {
                        0x00..=0x7f => 1,
                        0xc0..=0xdf => 2,
                        0xe0..=0xef => 3,
                        _ => 4,
                    };
                    let bytes = self.b.get(self.i..self.i + n).ok_or("truncated UTF-8")?;
                    let s = std::str::from_utf8(bytes).map_err(|e| e.to_string())?;
                    out.push_str(s);
                    self.i += n;
                }
            }
        }
    }
    fn hex4(&mut self) -> Result<u32, String> {
        let s = self.b.get(self.i..self.i + 4).ok_or("short \\u")?;
        let s = std::str::from_utf8(s).map_err(|e| e.to_string())?;
        self.i += 4;
        u32::from_str_radix(s, 16).map_err(|e| e.to_string())
    }
}

#[cfg(test)]
mod tests {
    use super::*;
    #[test]
    fn round_trip() {
        let v = obj(vec![
            ("a", J::Int(-3)),
            ("s", J::Str("x\r\n\u{feff}é😀\"\\".into())),
            ("l", J::Arr(vec![J::Int(1), J::Arr(vec![]), obj(vec![("k", J::Null)])])),
            ("f", J::Float(1.5)),
        ]);
        assert_eq!(parse(&v.to_pretty()).unwrap(), v);
        assert_eq!(parse(&v.to_compact()).unwrap(), v);
    }
}
