//! The one source of randomness of the simulator: SplitMix64 seeding xoshiro256**.
//! Written here (not `rand`) so that a seed means the same execution for ever.

#[derive(Clone, Debug)]
pub struct Rng {
    s: [u64; 4],
}

#[inline]
fn splitmix(state: &mut u64) -> u64 {
    *state = state.wrapping_add(0x9E37_79B9_7F4A_7C15);
    let mut z = *state;
    z = (z ^ (z >> 30)).wrapping_mul(0xBF58_476D_1CE4_E5B9);
    z = (z ^ (z >> 27)).wrapping_mul(0x94D0_49BB_1331_11EB);
    z ^ (z >> 31)
}

/// Derive the seed of one run from the batch seed and a list of tags
/// (property, layer, configuration, run index). Pure function.
pub fn derive(seed: u64, tags: &[u64]) -> u64 {
    let mut st = seed ^ 0xA076_1D64_78BD_642F;
    let mut out = splitmix(&mut st);
    for &t in tags {
        st ^= t.wrapping_mul(0xE703_7ED1_A0B4_28DB);
        out ^= splitmix(&mut st).rotate_left(17);
        st = st.wrapping_add(out);
    }
    splitmix(&mut st) ^ out
}

impl Rng {
    pub fn new(seed: u64) -> Self {
        let mut st = seed;
        let mut s = [0u64; 4];
        for x in s.iter_mut() {
            *x = splitmix(&mut st);
        }
        if s == [0; 4] {
            s[0] = 1;
        }
        Rng { s }
    }

    #[inline]
    pub fn next_u64(&mut self) -> u64 {
        let result = self.s[1].wrapping_mul(5).rotate_left(7).wrapping_mul(9);
        let t = self.s[1] << 17;
        self.s[2] ^= self.s[0];
        self.s[3] ^= self.s[1];
        self.s[1] ^= self.s[2];
        self.s[0] ^= self.s[3];
        self.s[2] ^= t;
        self.s[3] = self.s[3].rotate_left(45);
        result
    }

    #[inline]
    pub fn next_u32(&mut self) -> u32 {
        (self.next_u64() >> 32) as u32
    }

    /// Uniform in `0..n` (n > 0). Slight modulo bias is irrelevant here.
    #[inline]
    pub fn below(&mut self, n: u64) -> u64 {
        debug_assert!(n > 0);
        ((self.next_u64() >> 11) as u128 * n as u128 >> 53) as u64
    }

    #[inline]
    pub fn range(&mut self, lo: u64, hi_incl: u64) -> u64 {
        lo + self.below(hi_incl - lo + 1)
    }

    #[inline]
    pub fn chance(&mut self, num: u64, den: u64) -> bool {
        self.below(den) < num
    }

    pub fn pick<'a, T>(&mut self, xs: &'a [T]) -> &'a T {
        &xs[self.below(xs.len() as u64) as usize]
    }

    /// Index drawn with the given (non-negative) weights; at least one must be > 0.
    pub fn weighted(&mut self, w: &[u32]) -> usize {
        let total: u64 = w.iter().map(|&x| x as u64).sum();
        assert!(total > 0, "weighted: all weights are zero");
        let mut r = self.below(total);
        for (i, &x) in w.iter().enumerate() {
            if r < x as u64 {
                return i;
            }
            r -= x as u64;
        }
        unreachable!()
    }
}

/// FNV-1a 64 over a stream of words; the run fingerprint.
#[derive(Clone, Copy, Debug)]
pub struct Digest(pub u64);

impl Default for Digest {
    fn default() -> Self {
        Digest(0xcbf2_9ce4_8422_2325)
    }
}

impl Digest {
    #[inline]
    pub fn byte(&mut self, b: u8) {
        self.0 ^= b as u64;
        self.0 = self.0.wrapping_mul(0x0000_0100_0000_01B3);
    }
    #[inline]
    pub fn word(&mut self, w: u64) {
        for b in w.to_le_bytes() {
            self.byte(b);
        }
    }
    pub fn bytes(&mut self, bs: &[u8]) {
        self.word(bs.len() as u64);
        for &b in bs {
            self.byte(b);
        }
    }
    pub fn str(&mut self, s: &str) {
        self.bytes(s.as_bytes());
    }
}
