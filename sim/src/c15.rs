//! C15 — position primitives under seeded operation histories.
//!
//! System under test (real code, no stubs): `UniversalNewlineIterator`,
//! `NewlineWithTrailingNewline`, `Line`, `LineIndex`, `SourceCode`, `SourceFile`
//! (lazily indexed and pre-indexed), `TextRange`/`TextSize`.
//! The caller is the scheduler: a seeded history of `next`/`next_back`/`nth`/... calls,
//! interleaved with restarts of the iterator (the crash/restart analogue: only the two
//! offsets survive), index queries through cloned/dropped handles and range algebra on the
//! ranges the history produced. Every step is compared with the naive model in `model.rs`.

use crate::harness::{chunk_removals, guarded, panic_class, Layer, Outcome, Stats, Violation};
use crate::json::{obj, J};
use crate::model::{self, Iv, MLine};
use crate::rng::{Digest, Rng};
use rustpython_parser_vendored::source_location::newlines::{
    find_newline, Line, LineEnding, NewlineWithTrailingNewline, StrExt, UniversalNewlineIterator,
};
use rustpython_parser_vendored::source_location::{
    LineIndex, OneIndexed, SourceCode, SourceFile, SourceFileBuilder, SourceLocation,
};
use rustpython_parser_vendored::text_size::{TextLen, TextRange, TextSize};
use std::cmp::Ordering;

// ------------------------------------------------------------------------------------------
// operations

macro_rules! op_kinds {
    ($($name:ident),* $(,)?) => {
        #[derive(Clone, Copy, Debug, PartialEq, Eq, Hash)]
        #[repr(u8)]
        pub enum K { $($name),* }
        pub const ALL_KINDS: &[K] = &[$(K::$name),*];
        impl K {
            pub fn name(self) -> &'static str { match self { $(K::$name => stringify!($name)),* } }
            pub fn from_name(s: &str) -> Option<K> { match s { $(stringify!($name) => Some(K::$name),)* _ => None } }
        }
    };
}

op_kinds!(
    Next,
    NextBack,
    Nth,
    NthBack,
    Last,
    Count,
    RevCollect,
    AfterNone,
    RestartAligned,
    RestartTornFront,
    RestartTornBack,
    QueryOffset,
    QueryRow,
    Slice,
    RangeOp,
    SizeOp,
    CloneHandle,
    DropHandle,
    SwitchHandle,
    OtherFile,
    FoldAll,
    SizeHint,
    CompareFiles,
);

#[derive(Clone, Copy, Debug, PartialEq, Eq)]
pub struct Op {
    pub k: K,
    pub a: u32,
    pub b: u32,
    pub c: u32,
}

#[derive(Clone, Debug)]
pub struct Case {
    pub text: String,
    pub base: u32,
    /// iterate with `NewlineWithTrailingNewline` (forward only) instead of the plain iterator
    pub trailing: bool,
    pub ops: Vec<Op>,
    /// other source files alive in the same process during this run (lazily indexed, queried by
    /// `OtherFile` operations): whatever state the library shares between files is exercised
    /// inside one run, so a failure that needs it replays from the run alone
    pub others: Vec<String>,
    /// the text handed to the library starts this many bytes into an (8-byte aligned) buffer:
    /// word-at-a-time scanners treat the unaligned head of a slice separately
    pub align: u8,
}

// ------------------------------------------------------------------------------------------
// counters / probes

macro_rules! counters {
    ($($name:ident),* $(,)?) => {
        #[allow(non_camel_case_types, dead_code)]
        #[derive(Clone, Copy)]
        #[repr(usize)]
        pub enum C { $($name),* }
        pub const COUNTER_NAMES: &[&str] = &[$(stringify!($name)),*];
    };
}

counters!(
    op_Next,
    op_NextBack,
    op_Nth,
    op_NthBack,
    op_Last,
    op_Count,
    op_RevCollect,
    op_AfterNone,
    op_RestartAligned,
    op_RestartTornFront,
    op_RestartTornBack,
    op_QueryOffset,
    op_QueryRow,
    op_Slice,
    op_RangeOp,
    op_SizeOp,
    op_CloneHandle,
    op_DropHandle,
    op_SwitchHandle,
    op_OtherFile,
    op_FoldAll,
    op_SizeHint,
    op_CompareFiles,
    fault_restart_aligned_midway,
    fault_restart_torn_inside_crlf,
    fault_restart_torn_other,
    fault_by_value_consumption,
    fault_high_base_offset,
    fault_unaligned_text_address,
    probe_back_crlf_trim,
    probe_back_lone_cr,
    probe_back_lone_lf,
    probe_front_crlf,
    probe_front_lone_cr,
    probe_cursors_met_by_alternation,
    probe_window_starts_with_torn_lf,
    probe_only_a_break_left,
    probe_trailing_empty_line_yielded,
    probe_bom_adjusted_column,
    probe_offset_at_eof_after_break,
    probe_offset_inside_crlf,
    probe_nonascii_column,
    probe_checked_add_none,
    probe_checked_sub_none,
    probe_add_panics_on_overflow,
    probe_intersect_none,
    probe_intersect_touching,
    probe_range_end_near_u32_max,
    probe_lazy_index_first_touch,
    probe_index_cross_check,
    probe_other_file_built,
    probe_compared_unequal_files_of_equal_length,
    yielded_lines,
    runs_trailing_variant,
    runs_small_scope,
    runs_long_text,
);

fn op_counter(k: K) -> usize {
    k as usize // op_* counters are declared in the same order as the kinds
}

// ------------------------------------------------------------------------------------------
// generation

/// `--scale 0` is used by the Miri run of this layer: like scale 1, but without the rare
/// very large texts (the interpreter is ~10^4 times slower).
fn scale_allows_big(scale: u32) -> bool {
    scale > 0
}

const PIECES: &[&str] = &["\n", "\r", "\r\n", "a", "bc", "é", "→", "😀", "\u{feff}", " ", ""];
/// Characters that are NOT line breaks but look like one to a sloppy scanner: neighbours of LF
/// (0x0A) and CR (0x0D) in value, bytes that differ from them in one bit, other "newline-ish"
/// code points (a universal-newlines implementation must not split on them), and multi-byte
/// characters whose UTF-8 encoding contains 0x8A / 0x8D / 0x85.
pub const LOOKALIKES: &[&str] = &[
    "\x0b", "\x0c", "\x0e", "\t", "\x08", "\x1c", "\x1d", "\x1e", "\x1f", "\x7f", "\0", "\u{85}", "\u{2028}", "\u{2029}",
    "Ċ", "č", "*", "-", "J", "M", "j", "m", "\x1a", "\x0f", "ʊ", "＊",
    // first and last character of every UTF-8 length class and of every 4-byte lead byte
    "\u{7f}", "\u{80}", "\u{7ff}", "\u{800}", "\u{ffff}", "\u{10000}", "\u{3ffff}", "\u{40000}", "\u{fffff}", "\u{100000}", "\u{10ffff}", "\u{fffd}", "\u{d7ff}", "\u{e000}",
];
pub const SMALL_ALPHABET: &[&str] = &["\n", "\r", "a", "é", "😀", "\u{feff}"];

pub fn generate(seed: u64, config: u64, scale_arg: u32) -> Case {
    let mut r = Rng::new(seed);
    let faults = config == 1;

    // --- text
    let style = r.below(100);
    let mut text = String::new();
    let big = r.chance(1, 4000);
    let scale = scale_arg.max(1); // scale 0 (Miri): as 1, no big texts
    if big && scale_allows_big(scale_arg) {
        // rare size classes (very long line, very many lines, beyond 2^16 bytes, 2^k line lengths)
        text = crate::bigtext::gen_big_text_scaled(&mut r, scale_arg > 1);
    } else if r.chance(1, 150) {
        // a handful of lines of ordinary source-file width
        text = crate::bigtext::gen_medium_text(&mut r);
    } else if style < 25 {
        // dense small scope over the raw 6-symbol alphabet
        let n = r.below(6);
        for _ in 0..n {
            text.push_str(*r.pick::<&str>(SMALL_ALPHABET));
        }
    } else {
        let mut w = [0u32; 11];
        for x in w.iter_mut() {
            *x = *r.pick(&[0u32, 1, 1, 2, 4]);
        }
        if w.iter().all(|&x| x == 0) {
            w[r.below(11) as usize] = 1;
        }
        let n = if style >= 95 {
            r.range(13, 40 * scale as u64)
        } else {
            r.below(13)
        };
        if r.chance(15, 100) {
            text.push('\u{feff}');
        }
        // a fraction of the runs mixes in characters that merely resemble line breaks
        let lookalikes = r.chance(1, 6);
        for _ in 0..n {
            if lookalikes && r.chance(1, 3) {
                text.push_str(*r.pick::<&str>(LOOKALIKES));
            } else {
                text.push_str(PIECES[r.weighted(&w)]);
            }
        }
    }
    let len = text.len() as u64;

    // --- base offset
    let base = {
        let c = r.below(100);
        if c < 60 {
            0
        } else if c < 80 || !faults {
            r.below(1000) as u32
        } else {
            (u32::MAX as u64 - len - r.below(4)) as u32
        }
    };

    // --- variant
    let trailing = r.chance(15, 100);

    // --- op mix for this run (swarm)
    let mut w = [0u32; 23];
    let pickw = |r: &mut Rng, opts: &[u32]| *r.pick(opts);
    w[K::Next as usize] = pickw(&mut r, &[0, 2, 6, 10]);
    w[K::NextBack as usize] = pickw(&mut r, &[0, 2, 6, 10]);
    w[K::Nth as usize] = pickw(&mut r, &[0, 0, 1, 2]);
    w[K::NthBack as usize] = pickw(&mut r, &[0, 0, 1, 2]);
    w[K::AfterNone as usize] = pickw(&mut r, &[0, 1, 2]);
    w[K::QueryOffset as usize] = pickw(&mut r, &[0, 1, 3, 6]);
    w[K::QueryRow as usize] = pickw(&mut r, &[0, 1, 3]);
    w[K::Slice as usize] = pickw(&mut r, &[0, 1, 2]);
    w[K::RangeOp as usize] = pickw(&mut r, &[0, 2, 4, 8]);
    w[K::SizeOp as usize] = pickw(&mut r, &[0, 0, 1]);
    w[K::CloneHandle as usize] = pickw(&mut r, &[0, 1]);
    w[K::DropHandle as usize] = pickw(&mut r, &[0, 1]);
    w[K::SwitchHandle as usize] = pickw(&mut r, &[0, 1, 2]);
    w[K::OtherFile as usize] = pickw(&mut r, &[0, 1, 2]);
    w[K::SizeHint as usize] = pickw(&mut r, &[0, 0, 1]);
    w[K::CompareFiles as usize] = pickw(&mut r, &[0, 0, 1]);
    if faults {
        w[K::RestartAligned as usize] = pickw(&mut r, &[0, 1, 3]);
        w[K::RestartTornFront as usize] = pickw(&mut r, &[0, 1, 2]);
        w[K::RestartTornBack as usize] = pickw(&mut r, &[0, 1, 2]);
        w[K::Last as usize] = pickw(&mut r, &[0, 0, 1]);
        w[K::Count as usize] = pickw(&mut r, &[0, 0, 1]);
        w[K::RevCollect as usize] = pickw(&mut r, &[0, 0, 1]);
        w[K::FoldAll as usize] = pickw(&mut r, &[0, 0, 1]);
    }
    if w[K::Next as usize] == 0 && w[K::NextBack as usize] == 0 {
        // every run drives the iterator
        if r.chance(1, 2) {
            w[K::Next as usize] = 6;
        } else {
            w[K::NextBack as usize] = 6;
        }
    }
    let n_ops = if style >= 95 {
        r.range(20, 60 * scale as u64)
    } else {
        r.range(1, 24)
    };
    let mut ops = Vec::with_capacity(n_ops as usize);
    for _ in 0..n_ops {
        let k = ALL_KINDS[r.weighted(&w)];
        ops.push(Op {
            k,
            a: r.next_u32(),
            b: r.next_u32(),
            c: r.next_u32(),
        });
    }
    if text.len() > (1 << 20) {
        ops.truncate(6); // multi-megabyte texts: a short history is enough and keeps the run cheap
    }
    // other files of this run: mostly one-liners (a REPL line, an eval string), sometimes a text
    // from the same generator
    const ONE_LINERS: &[&str] = &["x = 1", "", "é", "\u{feff}a", "λ = 'ü'", "pass", "\u{feff}", "a😀b"];
    let mut others = Vec::new();
    for _ in 0..r.below(3) {
        if r.chance(2, 3) {
            others.push(r.pick::<&str>(ONE_LINERS).to_string());
        } else {
            let mut t = String::new();
            for _ in 0..r.below(6) {
                t.push_str(*r.pick::<&str>(SMALL_ALPHABET));
            }
            others.push(t);
        }
    }
    let align = if r.chance(1, 2) { r.below(8) as u8 } else { 0 };
    Case {
        text,
        base,
        trailing,
        ops,
        others,
        align,
    }
}

// ------------------------------------------------------------------------------------------
// execution

enum It<'t> {
    Plain(UniversalNewlineIterator<'t>),
    Trailing(NewlineWithTrailingNewline<'t>),
}

enum Handle {
    Index(LineIndex),
    /// a `SourceFile`; the flag says whether it was built without an index (lazy)
    File(SourceFile, bool),
}

struct Exec<'t, 's> {
    text: &'t str,
    base: u32,
    trailing: bool,
    it: It<'t>,
    // model: unconsumed window of `text`, and whether a trailing empty line is pending
    f: usize,
    b: usize,
    trailing_pending: bool,
    // conservation bookkeeping (per epoch; a torn restart starts a new epoch on that side)
    front_epoch: usize,
    back_epoch: usize,
    front_yield: Vec<MLine>,
    back_yield: Vec<MLine>,
    last_yield_front: Option<MLine>,
    used_front: bool,
    used_back: bool,
    /// the order in which the two ends were pulled (1 = front, 2 = back), base-3 packed
    pulls: u64,
    // index handles
    handles: Vec<Handle>,
    cur: usize,
    lazy_untouched: bool,
    // range pool (model side; TextRanges are rebuilt from it at use time)
    pool: Vec<Iv>,
    others: &'t [String],
    other_files: Vec<Option<SourceFile>>,
    stats: &'s mut Stats,
    dg: Digest,
    rows: Vec<(usize, usize)>,
}

type Res = Result<(), (String, String)>; // (class, detail)

fn mismatch(detail: String) -> (String, String) {
    ("step-mismatch".to_string(), detail)
}

fn ts(x: usize) -> TextSize {
    TextSize::new(x as u32)
}

impl<'t, 's> Exec<'t, 's> {
    fn abs(&self, x: usize) -> u64 {
        self.base as u64 + x as u64
    }

    fn new_iter(text: &'t str, f: usize, b: usize, base: u32, trailing: bool) -> It<'t> {
        let off = TextSize::new(base + f as u32);
        if trailing {
            It::Trailing(NewlineWithTrailingNewline::with_offset(&text[f..b], off))
        } else {
            It::Plain(UniversalNewlineIterator::with_offset(&text[f..b], off))
        }
    }

    fn window_lines(&self) -> Vec<MLine> {
        model::split_lines(&self.text[self.f..self.b])
            .into_iter()
            .map(|l| MLine {
                start: l.start + self.f,
                end: l.end + self.f,
                full_end: l.full_end + self.f,
            })
            .collect()
    }

    fn push_pool(&mut self, iv: Iv) {
        if self.pool.len() >= 24 {
            let i = (iv.s ^ iv.e) as usize % self.pool.len();
            self.pool[i] = iv;
        } else {
            self.pool.push(iv);
        }
    }

    /// Compare a yielded `Line` with the model line; exercises every accessor of `Line`.
    fn check_line(&mut self, got: &Line<'t>, exp: MLine) -> Res {
        let t = self.text;
        let full = &t[exp.start..exp.full_end];
        let bare = &t[exp.start..exp.end];
        let s = self.abs(exp.start);
        let e = self.abs(exp.end);
        let fe = self.abs(exp.full_end);
        let mut bad = Vec::new();
        if got.as_full_str() != full {
            bad.push(format!("as_full_str {:?} != {:?}", got.as_full_str(), full));
        } else if !full.is_empty() && got.as_full_str().as_ptr() != full.as_ptr() {
            bad.push("as_full_str is not the expected slice of the text".to_string());
        }
        if got.as_str() != bare {
            bad.push(format!("as_str {:?} != {:?}", got.as_str(), bare));
        }
        if &**got != bare {
            bad.push("deref differs from as_str".to_string());
        }
        if !(*got == bare && bare == *got) {
            bad.push("PartialEq<&str> disagrees".to_string());
        }
        if got.start().to_u32() as u64 != s {
            bad.push(format!("start {} != {}", got.start().to_u32(), s));
        }
        if got.end().to_u32() as u64 != e {
            bad.push(format!("end {} != {}", got.end().to_u32(), e));
        }
        if got.full_end().to_u32() as u64 != fe {
            bad.push(format!("full_end {} != {}", got.full_end().to_u32(), fe));
        }
        let r = got.range();
        if (r.start().to_u32() as u64, r.end().to_u32() as u64) != (s, e) {
            bad.push(format!("range {:?} != {}..{}", r, s, e));
        }
        let fr = got.full_range();
        if (fr.start().to_u32() as u64, fr.end().to_u32() as u64) != (s, fe) {
            bad.push(format!("full_range {:?} != {}..{}", fr, s, fe));
        }
        if got.full_text_len().to_u32() as usize != exp.full_end - exp.start {
            bad.push("full_text_len".to_string());
        }
        if *got != Line::new(full, TextSize::new(s as u32)) {
            bad.push("not equal to Line::new(text, offset)".to_string());
        }
        self.dg.word(s);
        self.dg.word(fe);
        if bad.is_empty() {
            self.stats.bump(C::yielded_lines as usize);
            self.push_pool(Iv { s, e });
            self.push_pool(Iv { s, e: fe });
            Ok(())
        } else {
            Err(mismatch(bad.join("; ")))
        }
    }

    fn expected_front(&self) -> Option<(MLine, bool)> {
        if let Some(l) = self.window_lines().first() {
            Some((*l, false))
        } else if self.trailing && self.trailing_pending {
            Some((
                MLine {
                    start: self.b,
                    end: self.b,
                    full_end: self.b,
                },
                true,
            ))
        } else {
            None
        }
    }

    fn probe_front(&mut self, l: MLine) {
        let brk = &self.text[l.end..l.full_end];
        if brk == "\r\n" {
            self.stats.bump(C::probe_front_crlf as usize);
        } else if brk == "\r" {
            self.stats.bump(C::probe_front_lone_cr as usize);
        }
    }
    fn probe_back(&mut self, l: MLine) {
        // which trim branch of next_back the *window* selected
        let w = &self.text[self.f..self.b];
        if w.ends_with("\r\n") {
            self.stats.bump(C::probe_back_crlf_trim as usize);
        } else if w.ends_with('\r') {
            self.stats.bump(C::probe_back_lone_cr as usize);
        } else if w.ends_with('\n') {
            self.stats.bump(C::probe_back_lone_lf as usize);
        }
        let _ = l;
    }

    fn do_next(&mut self) -> Res {
        let exp = self.expected_front();
        let got = match &mut self.it {
            It::Plain(it) => guarded(|| it.next()),
            It::Trailing(it) => guarded(|| it.next()),
        }
        .map_err(|p| (format!("panic:{}", panic_class(&p)), p))?;
        self.used_front = true;
        self.pulls = self.pulls.wrapping_mul(3).wrapping_add(1);
        match (got, exp) {
            (None, None) => {
                self.dg.word(u64::MAX);
                Ok(())
            }
            (Some(line), Some((l, is_trailing))) => {
                self.check_line(&line, l)?;
                if is_trailing {
                    self.trailing_pending = false;
                    self.stats.bump(C::probe_trailing_empty_line_yielded as usize);
                } else {
                    self.probe_front(l);
                    self.f = l.full_end;
                    self.front_yield.push(l);
                    if self.f == self.b && self.used_back {
                        self.stats.bump(C::probe_cursors_met_by_alternation as usize);
                    }
                    self.index_cross_check(l)?;
                    self.tiling_check(l, true)?;
                }
                Ok(())
            }
            (got, exp) => Err(mismatch(format!(
                "next() returned {:?}, model expects {:?}",
                got.map(|l| (l.as_full_str().to_string(), l.start().to_u32())),
                exp.map(|(l, _)| (&self.text[l.start..l.full_end], self.abs(l.start)))
            ))),
        }
    }

    fn do_next_back(&mut self) -> Res {
        if !matches!(self.it, It::Plain(_)) {
            return self.do_next();
        }
        let lines = self.window_lines();
        let exp = lines.last().copied();
        let It::Plain(it) = &mut self.it else { unreachable!() };
        let got = guarded(|| it.next_back()).map_err(|p| (format!("panic:{}", panic_class(&p)), p))?;
        self.used_back = true;
        self.pulls = self.pulls.wrapping_mul(3).wrapping_add(2);
        match (got, exp) {
            (None, None) => {
                self.dg.word(u64::MAX - 1);
                Ok(())
            }
            (Some(line), Some(l)) => {
                self.probe_back(l);
                self.check_line(&line, l)?;
                self.b = l.start;
                self.back_yield.push(l);
                if self.f == self.b && self.used_front {
                    self.stats.bump(C::probe_cursors_met_by_alternation as usize);
                }
                self.index_cross_check(l)?;
                self.tiling_check(l, false)?;
                Ok(())
            }
            (got, exp) => Err(mismatch(format!(
                "next_back() returned {:?}, model expects {:?}",
                got.map(|l| (l.as_full_str().to_string(), l.start().to_u32())),
                exp.map(|l| (&self.text[l.start..l.full_end], self.abs(l.start)))
            ))),
        }
    }

    /// I5: consecutive yields tile, checked through the range algebra itself.
    fn tiling_check(&mut self, l: MLine, front: bool) -> Res {
        let list = if front { &self.front_yield } else { &self.back_yield };
        if list.len() < 2 {
            return Ok(());
        }
        let prev = list[list.len() - 2];
        let (a, b) = if front { (prev, l) } else { (l, prev) };
        let base = self.base;
        let ra = TextRange::new(TextSize::new(base + a.start as u32), TextSize::new(base + a.full_end as u32));
        let rb = TextRange::new(TextSize::new(base + b.start as u32), TextSize::new(base + b.full_end as u32));
        let r = guarded(|| {
            let mut bad = Vec::new();
            if ra.end() != rb.start() {
                bad.push("consecutive lines do not touch".to_string());
            }
            let cov = ra.cover(rb);
            if cov.start() != ra.start() || cov.end() != rb.end() {
                bad.push(format!("cover {:?}", cov));
            }
            match ra.intersect(rb) {
                None => {}
                Some(i) if i.is_empty() => {}
                Some(i) => bad.push(format!("adjacent lines intersect in {:?}", i)),
            }
            if !ra.is_empty() && !rb.is_empty() && ra.ordering(rb) != Ordering::Less {
                bad.push("ordering of adjacent lines is not Less".to_string());
            }
            bad
        })
        .map_err(|p| (format!("panic:{}", panic_class(&p)), p))?;
        if r.is_empty() {
            Ok(())
        } else {
            Err(("tiling".to_string(), r.join("; ")))
        }
    }

    fn source_code<R>(&mut self, f: impl FnOnce(SourceCode<'_, '_>) -> R) -> R {
        let text = self.text;
        match &self.handles[self.cur] {
            Handle::Index(ix) => f(SourceCode::new(text, ix)),
            Handle::File(sf, lazy) => {
                if self.lazy_untouched && *lazy {
                    self.lazy_untouched = false;
                    self.stats.bump(C::probe_lazy_index_first_touch as usize);
                }
                f(sf.to_source_code())
            }
        }
    }

    /// I6: a yielded line that is a row of the whole text must be what the index says.
    fn index_cross_check(&mut self, l: MLine) -> Res {
        let Some(row) = self.rows.iter().position(|&(s, e)| s == l.start && e == l.full_end) else {
            return Ok(());
        };
        let text = self.text;
        let exp_end_loc = model::row_col(text, l.end);
        let one = OneIndexed::from_zero_indexed(row as u32);
        let r = guarded(|| {
            self.source_code(|sc| {
                let mut bad = Vec::new();
                if sc.line_start(one) != ts(l.start) {
                    bad.push(format!("line_start({}) = {:?}", row + 1, sc.line_start(one)));
                }
                if sc.line_end(one) != ts(l.full_end) {
                    bad.push(format!("line_end({}) = {:?}", row + 1, sc.line_end(one)));
                }
                if sc.line_text(one) != &text[l.start..l.full_end] {
                    bad.push(format!("line_text({}) = {:?}", row + 1, sc.line_text(one)));
                }
                if sc.line_index(ts(l.start)) != one {
                    bad.push(format!("line_index({}) = {:?}", l.start, sc.line_index(ts(l.start))));
                }
                let loc = sc.source_location(ts(l.end));
                if (loc.row.get(), loc.column.get()) != exp_end_loc {
                    bad.push(format!("source_location({}) = {:?}, model {:?}", l.end, loc, exp_end_loc));
                }
                bad
            })
        })
        .map_err(|p| (format!("panic:{}", panic_class(&p)), p))?;
        self.stats.bump(C::probe_index_cross_check as usize);
        if r.is_empty() {
            Ok(())
        } else {
            Err(("index-cross-check".to_string(), r.join("; ")))
        }
    }

    /// I2 + I3 + window shape bookkeeping; run after every step.
    fn invariants(&mut self, last: K) -> Res {
        // I2 conservation / exactly-once
        if self.f > self.b {
            return Err(("conservation".into(), format!("cursors crossed: {} > {}", self.f, self.b)));
        }
        let mut pos = self.front_epoch;
        for l in &self.front_yield {
            if l.start != pos {
                return Err(("conservation".into(), "front yields are not contiguous".into()));
            }
            pos = l.full_end;
        }
        if pos != self.f && !self.front_yield.is_empty() {
            return Err(("conservation".into(), "front yields do not end at the front cursor".into()));
        }
        let mut pos = self.back_epoch;
        for l in &self.back_yield {
            if l.full_end != pos {
                return Err(("conservation".into(), "back yields are not contiguous".into()));
            }
            pos = l.start;
        }
        if pos != self.b && !self.back_yield.is_empty() {
            return Err(("conservation".into(), "back yields do not end at the back cursor".into()));
        }
        // I3 internal cursors (hook)
        let (rem, off, off_back, trailing_off) = match &self.it {
            It::Plain(it) => {
                let (t, a, b) = it.verif_state();
                (t, a, b, None)
            }
            It::Trailing(it) => {
                let (tr, (t, a, b)) = it.verif_state();
                (t, a, b, Some(tr))
            }
        };
        let want = &self.text[self.f..self.b];
        if rem != want || (!want.is_empty() && rem.as_ptr() != want.as_ptr()) {
            return Err((
                "internal-state".into(),
                format!("remaining slice {:?}, model window {:?}", rem, want),
            ));
        }
        if off.to_u32() as u64 != self.abs(self.f) {
            // after the forward "last line" branch the code leaves `offset` behind on purpose
            // only when the slice is exhausted; tolerate exactly that
            if !want.is_empty() {
                return Err((
                    "internal-state".into(),
                    format!("offset {} but model front {}", off.to_u32(), self.abs(self.f)),
                ));
            }
        }
        if off_back.to_u32() as u64 != self.abs(self.b) && !want.is_empty() {
            return Err((
                "internal-state".into(),
                format!("offset_back {} but model back {}", off_back.to_u32(), self.abs(self.b)),
            ));
        }
        if !want.is_empty() && (off_back.to_u32() - off.to_u32()) as usize != rem.len() {
            return Err(("internal-state".into(), "offset_back - offset != remaining length".into()));
        }
        if let Some(tr) = trailing_off {
            let want_tr = if self.trailing_pending { Some(self.abs(self.b)) } else { None };
            if tr.map(|t| t.to_u32() as u64) != want_tr {
                return Err((
                    "internal-state".into(),
                    format!("pending trailing line {:?}, model {:?}", tr, want_tr),
                ));
            }
        }
        // reach: abstract state
        let w = want.as_bytes();
        let shape: u64 = if w.is_empty() {
            0
        } else if w == b"\n" || w == b"\r" || w == b"\r\n" {
            self.stats.bump(C::probe_only_a_break_left as usize);
            1
        } else if w.ends_with(b"\r\n") {
            2
        } else if w.ends_with(b"\n") {
            3
        } else if w.ends_with(b"\r") {
            4
        } else if !w.contains(&b'\n') && !w.contains(&b'\r') {
            5
        } else {
            6
        };
        let torn_lf = !w.is_empty() && w[0] == b'\n' && self.f > 0 && self.text.as_bytes()[self.f - 1] == b'\r';
        if torn_lf {
            self.stats.bump(C::probe_window_starts_with_torn_lf as usize);
        }
        let remaining = self.window_lines().len().min(3) as u64;
        let st = shape
            | (remaining << 3)
            | ((torn_lf as u64) << 5)
            | ((self.trailing as u64) << 6)
            | ((self.trailing_pending as u64) << 7)
            | ((last as u64) << 8)
            | ((self.used_front as u64) << 16)
            | ((self.used_back as u64) << 17);
        self.stats.states.insert(st);
        Ok(())
    }

    fn restart(&mut self, f: usize, b: usize) {
        self.f = f;
        self.b = b;
        self.trailing_pending = self.trailing && {
            let w = &self.text[f..b];
            w.ends_with('\n') || w.ends_with('\r')
        };
        self.it = Self::new_iter(self.text, f, b, self.base, self.trailing);
    }

    fn window_boundaries(&self) -> Vec<usize> {
        model::boundaries(self.text)
            .into_iter()
            .filter(|&k| k >= self.f && k <= self.b)
            .collect()
    }

    fn step(&mut self, op: Op) -> Res {
        self.stats.bump(op_counter(op.k));
        self.dg.byte(op.k as u8);
        match op.k {
            K::Next => self.do_next(),
            K::NextBack => self.do_next_back(),
            K::Nth | K::NthBack => {
                // std's default nth/nth_back, built on next/next_back: k skipped, one returned
                let k = (op.a % 3) as usize;
                if op.b % 2 == 1 && matches!(self.it, It::Plain(_)) {
                    // the real adaptor on the live iterator (an implementation may override nth /
                    // nth_back; whatever it does must equal k+1 pulls from that end)
                    let lines = self.window_lines();
                    let front = op.k == K::Nth;
                    let It::Plain(it) = &mut self.it else { unreachable!() };
                    let got = guarded(|| if front { it.nth(k) } else { it.nth_back(k) })
                        .map_err(|p| (format!("panic:{}", panic_class(&p)), p))?;
                    if front {
                        self.used_front = true;
                        self.pulls = self.pulls.wrapping_mul(3).wrapping_add(1);
                    } else {
                        self.used_back = true;
                        self.pulls = self.pulls.wrapping_mul(3).wrapping_add(2);
                    }
                    let exp = if lines.len() > k {
                        Some(if front { lines[k] } else { lines[lines.len() - 1 - k] })
                    } else {
                        None
                    };
                    return match (got, exp) {
                        (None, None) => {
                            // everything was consumed from that end
                            if front {
                                for l in &lines {
                                    self.front_yield.push(*l);
                                }
                                self.f = self.b;
                            } else {
                                for l in lines.iter().rev() {
                                    self.back_yield.push(*l);
                                }
                                self.b = self.f;
                            }
                            Ok(())
                        }
                        (Some(g), Some(e)) => {
                            self.check_line(&g, e)?;
                            if front {
                                for l in &lines[..=k] {
                                    self.front_yield.push(*l);
                                }
                                self.f = e.full_end;
                            } else {
                                for l in lines[lines.len() - 1 - k..].iter().rev() {
                                    self.back_yield.push(*l);
                                }
                                self.b = e.start;
                            }
                            Ok(())
                        }
                        (g, e) => Err(mismatch(format!("nth/nth_back({k}) on the live iterator gave {:?}, model {:?}", g, e))),
                    };
                }
                for _ in 0..=k {
                    if op.k == K::Nth {
                        self.do_next()?;
                    } else {
                        self.do_next_back()?;
                    }
                }
                // and once through the real adaptor, against a clone of the model
                let (f, b) = (self.f, self.b);
                let lines = self.window_lines();
                if let It::Plain(_) = self.it {
                    let mut fresh = UniversalNewlineIterator::with_offset(
                        &self.text[f..b],
                        TextSize::new(self.base + f as u32),
                    );
                    let got = guarded(|| if op.k == K::Nth { fresh.nth(k) } else { fresh.nth_back(k) })
                        .map_err(|p| (format!("panic:{}", panic_class(&p)), p))?;
                    let exp = if op.k == K::Nth {
                        lines.get(k).copied()
                    } else if lines.len() > k {
                        Some(lines[lines.len() - 1 - k])
                    } else {
                        None
                    };
                    match (got, exp) {
                        (None, None) => {}
                        (Some(g), Some(e)) => {
                            if g.as_full_str() != &self.text[e.start..e.full_end]
                                || g.start().to_u32() as u64 != self.abs(e.start)
                            {
                                return Err(mismatch(format!("nth({k}) on the window gave {:?}", g)));
                            }
                        }
                        (g, e) => {
                            return Err(mismatch(format!("nth({k}) gave {:?}, model {:?}", g, e)));
                        }
                    }
                }
                Ok(())
            }
            K::AfterNone => {
                // I4: once exhausted, always None from both ends
                if self.f == self.b && !(self.trailing && self.trailing_pending) {
                    for i in 0..3 {
                        if i % 2 == 0 {
                            self.do_next()?;
                        } else {
                            self.do_next_back()?;
                        }
                    }
                }
                Ok(())
            }
            K::Last | K::Count | K::RevCollect => {
                self.stats.bump(C::fault_by_value_consumption as usize);
                let lines = self.window_lines();
                let cap = self.text.len() + 4;
                let extra = (self.trailing && self.trailing_pending) as usize;
                let (f, b) = (self.f, self.b);
                let it = std::mem::replace(&mut self.it, Self::new_iter(self.text, b, b, self.base, false));
                let res: Result<(), (String, String)> = (|| {
                    match (op.k, it) {
                        (K::Last, It::Plain(it)) => {
                            let got = guarded(|| it.last()).map_err(|p| (format!("panic:{}", panic_class(&p)), p))?;
                            match (got, lines.last()) {
                                (None, None) => {}
                                (Some(g), Some(&e)) => self.check_line(&g, e)?,
                                (g, e) => return Err(mismatch(format!("last() gave {:?}, model {:?}", g, e))),
                            }
                        }
                        (K::Last, It::Trailing(it)) => {
                            let mut n = 0usize;
                            let got = guarded(|| it.take(cap).inspect(|_| n += 1).last())
                                .map_err(|p| (format!("panic:{}", panic_class(&p)), p))?;
                            if n >= cap {
                                return Err(("no-progress".into(), "iterator did not terminate".into()));
                            }
                            let exp = if extra == 1 {
                                Some(MLine { start: b, end: b, full_end: b })
                            } else {
                                lines.last().copied()
                            };
                            match (got, exp) {
                                (None, None) => {}
                                (Some(g), Some(e)) => self.check_line(&g, e)?,
                                (g, e) => return Err(mismatch(format!("last() gave {:?}, model {:?}", g, e))),
                            }
                        }
                        (K::Count, it) => {
                            let got = guarded(|| match it {
                                It::Plain(it) => it.take(cap).count(),
                                It::Trailing(it) => it.take(cap).count(),
                            })
                            .map_err(|p| (format!("panic:{}", panic_class(&p)), p))?;
                            if got >= cap {
                                return Err(("no-progress".into(), "iterator did not terminate".into()));
                            }
                            if got != lines.len() + extra {
                                return Err(mismatch(format!("count() = {got}, model {}", lines.len() + extra)));
                            }
                        }
                        (K::RevCollect, It::Plain(it)) => {
                            let got: Vec<Line> = guarded(|| it.rev().take(cap).collect())
                                .map_err(|p| (format!("panic:{}", panic_class(&p)), p))?;
                            if got.len() != lines.len() {
                                return Err(mismatch(format!("rev() yielded {} lines, model {}", got.len(), lines.len())));
                            }
                            for (g, e) in got.iter().zip(lines.iter().rev()) {
                                self.check_line(g, *e)?;
                            }
                        }
                        (K::RevCollect, It::Trailing(it)) => {
                            let got: Vec<Line> = guarded(|| it.take(cap).collect())
                                .map_err(|p| (format!("panic:{}", panic_class(&p)), p))?;
                            if got.len() != lines.len() + extra {
                                return Err(mismatch(format!("collect() yielded {} lines, model {}", got.len(), lines.len() + extra)));
                            }
                            for (g, e) in got.iter().zip(lines.iter()) {
                                self.check_line(g, *e)?;
                            }
                            if extra == 1 {
                                self.check_line(&got[got.len() - 1], MLine { start: b, end: b, full_end: b })?;
                            }
                        }
                        _ => unreachable!(),
                    }
                    Ok(())
                })();
                res?;
                // the iterator is gone: everything in the window counts as consumed; continue
                // on an empty window at the back cursor
                let _ = f;
                self.front_epoch = b;
                self.front_yield.clear();
                self.restart(b, b);
                Ok(())
            }
            K::FoldAll => {
                // everything std builds on fold / rfold / for_each / count: an implementation may
                // override these; they must hand out the same lines as repeated next()/next_back()
                self.stats.bump(C::fault_by_value_consumption as usize);
                let lines = self.window_lines();
                let extra = (self.trailing && self.trailing_pending) as usize;
                let b = self.b;
                let it = std::mem::replace(&mut self.it, Self::new_iter(self.text, b, b, self.base, false));
                let variant = op.a % 4;
                let mut reversed = false;
                let got: Vec<Line> = match it {
                    It::Plain(it) => guarded(|| match variant {
                        0 => it.fold(Vec::new(), |mut v, l| {
                            v.push(l);
                            v
                        }),
                        1 => it.rfold(Vec::new(), |mut v, l| {
                            v.push(l);
                            v
                        }),
                        2 => {
                            let mut v = Vec::new();
                            it.for_each(|l| v.push(l));
                            v
                        }
                        _ => it.map(|l| l).filter(|_| true).fold(Vec::new(), |mut v, l| {
                            v.push(l);
                            v
                        }),
                    }),
                    It::Trailing(it) => guarded(|| match variant {
                        2 => {
                            let mut v = Vec::new();
                            it.for_each(|l| v.push(l));
                            v
                        }
                        _ => it.fold(Vec::new(), |mut v, l| {
                            v.push(l);
                            v
                        }),
                    }),
                }
                .map_err(|p| (format!("panic:{}", panic_class(&p)), p))?;
                if variant == 1 && !self.trailing {
                    reversed = true;
                }
                let mut want: Vec<MLine> = lines.clone();
                if extra == 1 {
                    want.push(MLine { start: b, end: b, full_end: b });
                }
                if reversed {
                    want.reverse();
                }
                if got.len() != want.len() {
                    return Err(mismatch(format!("fold/rfold/for_each handed out {} lines, model {}", got.len(), want.len())));
                }
                for (g, e) in got.iter().zip(want.iter()) {
                    self.check_line(g, *e)?;
                }
                self.front_epoch = b;
                self.front_yield.clear();
                self.restart(b, b);
                Ok(())
            }
            K::SizeHint => {
                let remaining = self.window_lines().len() + (self.trailing && self.trailing_pending) as usize;
                let (lo, hi) = match &self.it {
                    It::Plain(it) => it.size_hint(),
                    It::Trailing(it) => it.size_hint(),
                };
                if lo > remaining || hi.is_some_and(|h| remaining > h) {
                    return Err(mismatch(format!("size_hint() = ({lo}, {:?}) but {remaining} lines remain", hi)));
                }
                Ok(())
            }
            K::RestartAligned => {
                if self.f > self.front_epoch || self.b < self.back_epoch {
                    self.stats.bump(C::fault_restart_aligned_midway as usize);
                }
                let (f, b) = (self.f, self.b);
                // the trailing variant legitimately recomputes "ends in a break" on the window
                self.restart(f, b);
                Ok(())
            }
            K::RestartTornFront | K::RestartTornBack => {
                let bs = self.window_boundaries();
                let k = bs[op.a as usize % bs.len()];
                // bias: if asked to (b odd) and a CRLF lies in the window, tear it apart
                let mut k = k;
                if op.b % 2 == 1 {
                    let inside: Vec<usize> = bs.iter().copied().filter(|&x| model::inside_crlf(self.text, x)).collect();
                    if !inside.is_empty() {
                        k = inside[op.c as usize % inside.len()];
                    }
                }
                if model::inside_crlf(self.text, k) {
                    self.stats.bump(C::fault_restart_torn_inside_crlf as usize);
                } else {
                    self.stats.bump(C::fault_restart_torn_other as usize);
                }
                if op.k == K::RestartTornFront {
                    self.front_epoch = k;
                    self.front_yield.clear();
                    let b = self.b;
                    self.restart(k, b);
                } else {
                    self.back_epoch = k;
                    self.back_yield.clear();
                    let f = self.f;
                    self.restart(f, k);
                }
                Ok(())
            }
            K::QueryOffset => self.query_offset(op),
            K::QueryRow => self.query_row(op),
            K::Slice => self.slice_op(op),
            K::RangeOp => self.range_op(op),
            K::SizeOp => self.size_op(op),
            K::CloneHandle => {
                if self.handles.len() < 6 {
                    let h = match &self.handles[op.a as usize % self.handles.len()] {
                        Handle::Index(ix) => Handle::Index(ix.clone()),
                        Handle::File(sf, lazy) => Handle::File(sf.clone(), *lazy),
                    };
                    self.handles.push(h);
                }
                Ok(())
            }
            K::DropHandle => {
                if self.handles.len() > 1 {
                    let i = op.a as usize % self.handles.len();
                    self.handles.remove(i);
                    if self.cur >= self.handles.len() {
                        self.cur = 0;
                    }
                }
                Ok(())
            }
            K::SwitchHandle => {
                self.cur = op.a as usize % self.handles.len();
                Ok(())
            }
            K::OtherFile => self.other_file(op),
            K::CompareFiles => self.compare_files(op),
        }
    }

    /// `==` between a file handle of this run and a separately built sibling file (same text;
    /// same text under another name; or a different text of the same name and byte length, the
    /// "file before and after an edit" pair). The answer must be "same name and same text", and
    /// the comparison must leave what both files answer untouched — whichever of the two had its
    /// lazy index built at that moment.
    fn compare_files(&mut self, op: Op) -> Res {
        let text = self.text;
        if text.len() > (1 << 20) {
            return Ok(());
        }
        let files: Vec<usize> = (0..self.handles.len()).filter(|&i| matches!(self.handles[i], Handle::File(..))).collect();
        if files.is_empty() {
            return Ok(());
        }
        let hi = files[op.a as usize % files.len()];
        let (sib_name, sib_text): (&str, String) = match op.b % 5 {
            0 => ("sim.py", text.to_string()),
            1 => ("other.py", text.to_string()),
            2 | 3 => {
                // first character moved to the end
                let c = text.chars().next().map_or(0, |c| c.len_utf8());
                ("sim.py", format!("{}{}", &text[c..], &text[..c]))
            }
            _ => ("sim.py", text.chars().rev().collect()),
        };
        let index_sibling_first = (op.c & 1) == 0;
        let sibling_on_the_left = (op.c & 2) == 0;
        let want_eq = sib_name == "sim.py" && sib_text == text;
        if !want_eq && sib_name == "sim.py" {
            self.stats.bump(C::probe_compared_unequal_files_of_equal_length as usize);
        }
        let sib_rows = model::rows(&sib_text);
        let sib_bs = model::boundaries(&sib_text);
        let so = sib_bs[(op.c >> 2) as usize % sib_bs.len()];
        let sib_want = (sib_rows.len(), model::row_col(&sib_text, so), sib_rows[sib_rows.len() - 1]);
        let bs = model::boundaries(text);
        let o = bs[(op.a >> 3) as usize % bs.len()];
        let n_rows = self.rows.len();
        let want = (n_rows, model::row_col(text, o), self.rows[n_rows - 1]);
        let Handle::File(sf, lazy) = &self.handles[hi] else { unreachable!() };
        if *lazy && self.lazy_untouched {
            self.lazy_untouched = false;
        }
        self.dg.word(so as u64);
        let got = guarded(|| {
            let sib = SourceFileBuilder::new(sib_name, sib_text.as_str()).finish();
            if index_sibling_first {
                let _ = sib.to_source_code().line_count();
            }
            let eq = if sibling_on_the_left { sib == *sf } else { *sf == sib };
            let ne = if sibling_on_the_left { sib != *sf } else { *sf != sib };
            let view = |f: &SourceFile, o: usize| {
                let sc = f.to_source_code();
                let n = sc.line_count();
                let last = OneIndexed::from_zero_indexed(n as u32 - 1);
                let loc = sc.source_location(ts(o));
                (n, (loc.row.get(), loc.column.get()), (sc.line_start(last).to_usize(), sc.line_end(last).to_usize()))
            };
            (eq, ne, view(&sib, so), view(sf, o))
        })
        .map_err(|p| (format!("panic:{}", panic_class(&p)), p))?;
        if got.0 != want_eq || got.1 == want_eq {
            return Err((
                "file-equality".to_string(),
                format!("{:?} ({sib_name}) vs {:?} (sim.py): == gave {}, != gave {}, expected == to be {}", sib_text, text, got.0, got.1, want_eq),
            ));
        }
        if got.2 != sib_want {
            return Err((
                "file-after-compare".to_string(),
                format!("sibling {:?} after being compared with {:?}: (line_count, location of {so}, last row) = {:?}, model {:?}", sib_text, text, got.2, sib_want),
            ));
        }
        if got.3 != want {
            return Err((
                "file-after-compare".to_string(),
                format!("file {:?} after being compared with {:?}: (line_count, location of {o}, last row) = {:?}, model {:?}", text, sib_text, got.3, want),
            ));
        }
        Ok(())
    }

    /// Query another lazily indexed file of this run against its own model.
    fn other_file(&mut self, op: Op) -> Res {
        if self.others.is_empty() {
            return Ok(());
        }
        let i = op.a as usize % self.others.len();
        let text: &str = &self.others[i];
        if self.other_files[i].is_none() {
            let name = format!("other{i}.py");
            self.other_files[i] = Some(SourceFileBuilder::new(name, text).finish());
            self.stats.bump(C::probe_other_file_built as usize);
        }
        let sf = self.other_files[i].as_ref().unwrap();
        let bs = model::boundaries(text);
        let o = bs[op.b as usize % bs.len()];
        let rows = model::rows(text);
        let r = op.c as usize % rows.len();
        let want = model::row_col(text, o);
        self.dg.word(o as u64);
        let got = guarded(|| {
            let sc = sf.to_source_code();
            let one = OneIndexed::from_zero_indexed(r as u32);
            let loc = sc.source_location(ts(o));
            let range = sc.line_range(one);
            (
                (loc.row.get(), loc.column.get()),
                sc.line_index(ts(o)).get(),
                sc.line_count(),
                (range.start().to_usize(), range.end().to_usize()),
                sc.line_text(one).to_string(),
                sc.text().len(),
            )
        })
        .map_err(|p| (format!("panic:{}", panic_class(&p)), p))?;
        let expect = (want, want.0, rows.len(), rows[r], text[rows[r].0..rows[r].1].to_string(), text.len());
        if got != expect {
            return Err((
                "other-file".to_string(),
                format!("file {i} {:?}: offset {o} row {}: got {:?}, model {:?}", text, r + 1, got, expect),
            ));
        }
        Ok(())
    }

    fn query_offset(&mut self, op: Op) -> Res {
        let text = self.text;
        let bs = model::boundaries(text);
        // bias towards interesting offsets
        let mut cands: Vec<usize> = Vec::new();
        match op.b % 4 {
            0 => cands.extend(bs.iter().copied()),
            1 => {
                for &(s, e) in &self.rows {
                    cands.push(s);
                    cands.push(e);
                }
                cands.push(text.len());
            }
            2 => {
                for l in model::split_lines(text) {
                    cands.push(l.end);
                    if l.full_end - l.end == 2 {
                        cands.push(l.end + 1);
                    }
                    cands.push(l.full_end);
                }
                cands.push(0);
            }
            _ => {
                cands.push(0);
                cands.push(text.len());
                if text.starts_with(model::BOM) {
                    cands.push(3);
                    if let Some(c) = text[3..].chars().next() {
                        cands.push(3 + c.len_utf8());
                    }
                }
            }
        }
        let o = cands[op.a as usize % cands.len()];
        let (row, col) = model::row_col(text, o);
        if text.starts_with(model::BOM) && o >= 3 && row == 1 {
            self.stats.bump(C::probe_bom_adjusted_column as usize);
        }
        if o == text.len() && (text.ends_with('\n') || text.ends_with('\r')) {
            self.stats.bump(C::probe_offset_at_eof_after_break as usize);
        }
        if model::inside_crlf(text, o) {
            self.stats.bump(C::probe_offset_inside_crlf as usize);
        }
        if !text[self.rows[row as usize - 1].0..o].is_ascii() {
            self.stats.bump(C::probe_nonascii_column as usize);
        }
        self.dg.word(o as u64);
        let got = guarded(|| {
            self.source_code(|sc| (sc.line_index(ts(o)), sc.source_location(ts(o)), sc.line_count(), sc.text().len()))
        })
        .map_err(|p| (format!("panic:{}", panic_class(&p)), p))?;
        let (li, loc, count, tlen) = got;
        let want = SourceLocation {
            row: OneIndexed::new(row).unwrap(),
            column: OneIndexed::new(col).unwrap(),
        };
        if li.get() != row {
            return Err(mismatch(format!("line_index({o}) = {}, model {row}", li.get())));
        }
        if loc != want {
            return Err(mismatch(format!("source_location({o}) = {:?}, model ({row},{col})", loc)));
        }
        if count != model::count_breaks(text) + 1 || count != self.rows.len() {
            return Err(mismatch(format!("line_count = {count}, model {}", self.rows.len())));
        }
        if tlen != text.len() {
            return Err(mismatch("SourceCode::text differs".into()));
        }
        Ok(())
    }

    fn query_row(&mut self, op: Op) -> Res {
        let text = self.text;
        let n = self.rows.len();
        let r = op.a as usize % n;
        let (s, e) = self.rows[r];
        let one = OneIndexed::from_zero_indexed(r as u32);
        self.dg.word(r as u64);
        let got = guarded(|| {
            self.source_code(|sc| (sc.line_start(one), sc.line_end(one), sc.line_range(one), sc.line_text(one).to_string()))
        })
        .map_err(|p| (format!("panic:{}", panic_class(&p)), p))?;
        let (ls, le, lr, lt) = got;
        let mut bad = Vec::new();
        if ls != ts(s) {
            bad.push(format!("line_start({}) = {:?}, model {s}", r + 1, ls));
        }
        if le != ts(e) {
            bad.push(format!("line_end({}) = {:?}, model {e}", r + 1, le));
        }
        if (lr.start(), lr.end()) != (ts(s), ts(e)) {
            bad.push(format!("line_range({}) = {:?}, model {s}..{e}", r + 1, lr));
        }
        if lt != text[s..e] {
            bad.push(format!("line_text({}) = {:?}", r + 1, lt));
        }
        // partition: walk all rows through the SUT, they must tile 0..len
        if op.b % 4 == 0 {
            let tiles = guarded(|| {
                self.source_code(|sc| {
                    let mut pos = TextSize::new(0);
                    let mut cat = String::new();
                    for i in 0..sc.line_count() {
                        let rr = sc.line_range(OneIndexed::from_zero_indexed(i as u32));
                        if rr.start() != pos {
                            return Err(format!("row {} starts at {:?}, previous ended at {:?}", i + 1, rr.start(), pos));
                        }
                        pos = rr.end();
                        cat.push_str(sc.line_text(OneIndexed::from_zero_indexed(i as u32)));
                    }
                    if pos != sc.text().text_len() || cat != sc.text() {
                        return Err("rows do not partition the text".to_string());
                    }
                    Ok(())
                })
            })
            .map_err(|p| (format!("panic:{}", panic_class(&p)), p))?;
            if let Err(e) = tiles {
                bad.push(e);
            }
        }
        // feed the shifted row range to the range pool (exercises checked_add on the way)
        let shifted = guarded(|| lr.checked_add(TextSize::new(self.base)))
            .map_err(|p| (format!("panic:{}", panic_class(&p)), p))?;
        match shifted {
            Some(x) if (x.start().to_u32() as u64, x.end().to_u32() as u64) == (self.abs(s), self.abs(e)) => {
                let iv = Iv { s: self.abs(s), e: self.abs(e) };
                self.push_pool(iv);
            }
            other => bad.push(format!("line_range + base = {:?}", other)),
        }
        if bad.is_empty() {
            Ok(())
        } else {
            Err(mismatch(bad.join("; ")))
        }
    }

    fn slice_op(&mut self, op: Op) -> Res {
        let text = self.text;
        let bs = model::boundaries(text);
        let mut o1 = bs[op.a as usize % bs.len()];
        let mut o2 = bs[op.b as usize % bs.len()];
        if o1 > o2 {
            std::mem::swap(&mut o1, &mut o2);
        }
        let r = TextRange::new(ts(o1), ts(o2));
        let got = guarded(|| {
            let a = self.source_code(|sc| (sc.up_to(ts(o1)).to_string(), sc.after(ts(o1)).to_string(), sc.slice(r).to_string()));
            let via_file = match &self.handles[self.cur] {
                Handle::File(sf, _) => Some((sf.slice(r).to_string(), sf.source_text().len(), sf.name().to_string())),
                _ => None,
            };
            (a, via_file, text[r].to_string())
        })
        .map_err(|p| (format!("panic:{}", panic_class(&p)), p))?;
        let ((up, after, sl), via_file, idx) = got;
        let mut bad = Vec::new();
        if up != text[..o1] {
            bad.push(format!("up_to({o1})"));
        }
        if after != text[o1..] {
            bad.push(format!("after({o1})"));
        }
        if sl != text[o1..o2] || idx != text[o1..o2] {
            bad.push(format!("slice({o1}..{o2})"));
        }
        if let Some((fs, flen, name)) = via_file {
            if fs != text[o1..o2] || flen != text.len() || name != "sim.py" {
                bad.push("SourceFile::slice/source_text/name".to_string());
            }
        }
        self.dg.word(o1 as u64);
        self.dg.word(o2 as u64);
        if bad.is_empty() {
            Ok(())
        } else {
            Err(mismatch(bad.join("; ")))
        }
    }

    fn pick_iv(&self, c: u32) -> Iv {
        if self.pool.is_empty() {
            let o = self.abs(self.text.len().min(c as usize % (self.text.len() + 1)));
            Iv { s: self.base as u64, e: o.max(self.base as u64) }
        } else {
            self.pool[c as usize % self.pool.len()]
        }
    }

    fn range_op(&mut self, op: Op) -> Res {
        const MAX: u64 = u32::MAX as u64;
        let r1 = self.pick_iv(op.a);
        let r2 = self.pick_iv(op.b);
        let mk = |iv: Iv| TextRange::new(TextSize::new(iv.s as u32), TextSize::new(iv.e as u32));
        let (t1, t2) = (mk(r1), mk(r2));
        let iv_of = |t: TextRange| Iv { s: t.start().to_u32() as u64, e: t.end().to_u32() as u64 };
        if r1.e > MAX - 8 || r2.e > MAX - 8 {
            self.stats.bump(C::probe_range_end_near_u32_max as usize);
        }
        let kind = op.c % 13;
        self.dg.word(kind as u64);
        self.dg.word(r1.s ^ (r1.e << 1) ^ (r2.s << 2) ^ (r2.e << 3));
        let sel = (op.c / 13) as u64;
        let pc = |p: String| (format!("panic:{}", panic_class(&p)), p);
        let mut bad: Vec<String> = Vec::new();
        match kind {
            0 | 1 => {
                // contains / contains_inclusive at offsets around both ranges
                let mut cands = vec![r1.s, r1.e, r2.s, r2.e, (r1.s + r1.e) / 2];
                for x in [r1.s, r1.e] {
                    if x > 0 {
                        cands.push(x - 1);
                    }
                    if x < MAX {
                        cands.push(x + 1);
                    }
                }
                let o = cands[(sel % cands.len() as u64) as usize];
                let to = TextSize::new(o as u32);
                let (c, ci) = guarded(|| (t1.contains(to), t1.contains_inclusive(to))).map_err(pc)?;
                if c != r1.contains(o) {
                    bad.push(format!("{:?}.contains({o}) = {c}", t1));
                }
                if ci != (r1.s <= o && o <= r1.e) {
                    bad.push(format!("{:?}.contains_inclusive({o}) = {ci}", t1));
                }
                // RangeBounds view agrees with contains
                let rb = guarded(|| {
                    use std::ops::{Bound, RangeBounds};
                    (
                        RangeBounds::contains(&t1, &to),
                        matches!(t1.start_bound(), Bound::Included(s) if s.to_u32() as u64 == r1.s),
                        matches!(t1.end_bound(), Bound::Excluded(e) if e.to_u32() as u64 == r1.e),
                    )
                })
                .map_err(pc)?;
                if rb.0 != r1.contains(o) || !rb.1 || !rb.2 {
                    bad.push(format!("RangeBounds view of {:?} at {o}: {:?}", t1, rb));
                }
            }
            2 => {
                let got = guarded(|| t1.contains_range(t2)).map_err(pc)?;
                if !r2.is_empty() {
                    let want = r2.subset_of(r1);
                    if got != want {
                        bad.push(format!("{:?}.contains_range({:?}) = {got}", t1, t2));
                    }
                } else if r1.s <= r2.s && r2.s <= r1.e {
                    // an empty range positioned within the receiver (end points included): the
                    // set reading (the empty set is a subset of everything) and the positional
                    // reading ("a range always contains itself") agree on true. An empty range
                    // positioned outside is degenerate and not asserted.
                    if !got {
                        bad.push(format!("{:?}.contains_range({:?}) = false for an empty range inside the receiver", t1, t2));
                    }
                }
                // a range always contains itself
                let own = guarded(|| t1.contains_range(t1)).map_err(pc)?;
                if !own {
                    bad.push(format!("{:?} does not contain itself", t1));
                }
            }
            3 => {
                let got = guarded(|| t1.intersect(t2)).map_err(pc)?;
                let want = r1.inter(r2);
                // reach probes depend on the operands only, never on what the code answered
                if want.is_none() {
                    if r1.s.max(r2.s) == r1.e.min(r2.e) {
                        self.stats.bump(C::probe_intersect_touching as usize);
                    } else if r1.s.max(r2.s) > r1.e.min(r2.e) {
                        self.stats.bump(C::probe_intersect_none as usize);
                    }
                }
                match (got, want) {
                    (Some(g), Some(w)) => {
                        if iv_of(g) != w {
                            bad.push(format!("{:?}.intersect({:?}) = {:?}, set intersection {:?}", t1, t2, g, w));
                        } else {
                            self.push_pool(w);
                        }
                    }
                    (None, None) => {}
                    (Some(g), None) => {
                        if !g.is_empty() {
                            bad.push(format!("{:?}.intersect({:?}) = {:?}, but the sets are disjoint", t1, t2, g));
                        } else {
                            // an empty intersection reported as a position must lie within both covers
                            let gi = iv_of(g);
                            if gi.s < r1.s.max(r2.s) || gi.s > r1.e.min(r2.e) {
                                bad.push(format!("empty intersection placed at {:?}", g));
                            }
                        }
                    }
                    (None, Some(w)) => bad.push(format!("{:?}.intersect({:?}) = None, set intersection {:?}", t1, t2, w)),
                }
            }
            4 => {
                let got = iv_of(guarded(|| t1.cover(t2)).map_err(pc)?);
                if got.s > got.e {
                    bad.push("cover: start > end".into());
                }
                if !r1.is_empty() && !r2.is_empty() {
                    let want = Iv { s: r1.s.min(r2.s), e: r1.e.max(r2.e) };
                    if got != want {
                        bad.push(format!("{:?}.cover({:?}) = {:?}", t1, t2, got));
                    }
                } else {
                    for r in [r1, r2] {
                        if !r.is_empty() && !r.subset_of(got) {
                            bad.push(format!("cover {:?} does not contain {:?}", got, r));
                        }
                    }
                    // never larger than the hull of both operands' positions
                    if got.s < r1.s.min(r2.s) || got.e > r1.e.max(r2.e) {
                        bad.push(format!("cover {:?} exceeds the hull of {:?} and {:?}", got, r1, r2));
                    }
                    // an empty operand positioned within the other one adds nothing
                    for (a, b) in [(r1, r2), (r2, r1)] {
                        if a.is_empty() && !b.is_empty() && b.s <= a.s && a.s <= b.e && got != b {
                            bad.push(format!("cover of {:?} with the empty {:?} inside it = {:?}", b, a, got));
                        }
                    }
                }
                if bad.is_empty() {
                    self.push_pool(got);
                }
            }
            5 => {
                let cands = [r2.s, r2.e, r1.s, r1.e, 0, MAX];
                let o = cands[(sel % 6) as usize];
                let got = iv_of(guarded(|| t1.cover_offset(TextSize::new(o as u32))).map_err(pc)?);
                let want = Iv { s: r1.s.min(o), e: r1.e.max(o) };
                if got != want {
                    bad.push(format!("{:?}.cover_offset({o}) = {:?}", t1, got));
                }
            }
            6 | 8 => {
                // shifting up: checked_add, and `+` (documented to panic on overflow)
                let cands = [0, 1, sel % 17, MAX - r1.e, (MAX - r1.e).saturating_add(1).min(MAX), (MAX - r1.s).saturating_add(1).min(MAX), MAX];
                let d = cands[(sel % 7) as usize];
                let td = TextSize::new(d as u32);
                let fits = r1.e + d <= MAX;
                if kind == 6 {
                    let got = guarded(|| t1.checked_add(td)).map_err(pc)?;
                    match (got, fits) {
                        (Some(g), true) => {
                            if iv_of(g) != (Iv { s: r1.s + d, e: r1.e + d }) {
                                bad.push(format!("{:?}.checked_add({d}) = {:?}", t1, g));
                            } else {
                                self.push_pool(iv_of(g));
                            }
                        }
                        (None, false) => self.stats.bump(C::probe_checked_add_none as usize),
                        (g, _) => bad.push(format!("{:?}.checked_add({d}) = {:?}, fits = {fits}", t1, g)),
                    }
                } else {
                    let variant = sel / 7 % 5;
                    let got = guarded(|| match variant {
                        0 => t1 + td,
                        1 => &t1 + td,
                        2 => t1 + &td,
                        3 => &t1 + &td,
                        _ => {
                            let mut x = t1;
                            x += td;
                            x
                        }
                    });
                    match (got, fits) {
                        (Ok(g), true) => {
                            if iv_of(g) != (Iv { s: r1.s + d, e: r1.e + d }) {
                                bad.push(format!("{:?} + {d} = {:?}", t1, g));
                            }
                        }
                        (Err(_), false) => self.stats.bump(C::probe_add_panics_on_overflow as usize),
                        (Ok(g), false) => bad.push(format!("{:?} + {d} = {:?} although the shift leaves 0..2^32", t1, g)),
                        (Err(p), true) => return Err(pc(p)),
                    }
                }
            }
            7 | 9 => {
                let cands = [0, 1, r1.s, r1.s + 1, r1.e, r1.e.saturating_add(1).min(MAX), sel % 17];
                let d = cands[(sel % 7) as usize].min(MAX);
                let td = TextSize::new(d as u32);
                let fits = d <= r1.s;
                if kind == 7 {
                    let got = guarded(|| t1.checked_sub(td)).map_err(pc)?;
                    match (got, fits) {
                        (Some(g), true) => {
                            if iv_of(g) != (Iv { s: r1.s - d, e: r1.e - d }) {
                                bad.push(format!("{:?}.checked_sub({d}) = {:?}", t1, g));
                            } else {
                                self.push_pool(iv_of(g));
                            }
                        }
                        (None, false) => self.stats.bump(C::probe_checked_sub_none as usize),
                        (g, _) => bad.push(format!("{:?}.checked_sub({d}) = {:?}, fits = {fits}", t1, g)),
                    }
                } else {
                    let variant = sel / 7 % 5;
                    let got = guarded(|| match variant {
                        0 => t1 - td,
                        1 => &t1 - td,
                        2 => t1 - &td,
                        3 => &t1 - &td,
                        _ => {
                            let mut x = t1;
                            x -= td;
                            x
                        }
                    });
                    match (got, fits) {
                        (Ok(g), true) => {
                            if iv_of(g) != (Iv { s: r1.s - d, e: r1.e - d }) {
                                bad.push(format!("{:?} - {d} = {:?}", t1, g));
                            }
                        }
                        (Err(_), false) => self.stats.bump(C::probe_add_panics_on_overflow as usize),
                        (Ok(g), false) => bad.push(format!("{:?} - {d} = {:?} although the shift leaves 0..2^32", t1, g)),
                        (Err(p), true) => return Err(pc(p)),
                    }
                }
            }
            10 => {
                let got = guarded(|| t1.ordering(t2)).map_err(pc)?;
                if !r1.is_empty() && !r2.is_empty() {
                    let want = if r1.e <= r2.s {
                        Ordering::Less
                    } else if r2.e <= r1.s {
                        Ordering::Greater
                    } else {
                        Ordering::Equal
                    };
                    if got != want {
                        bad.push(format!("{:?}.ordering({:?}) = {:?}", t1, t2, got));
                    }
                    // antisymmetry through the SUT
                    let rev = guarded(|| t2.ordering(t1)).map_err(pc)?;
                    if rev != want.reverse() {
                        bad.push(format!("{:?}.ordering({:?}) = {:?}", t2, t1, rev));
                    }
                }
            }
            11 => {
                // constructors and accessors
                let got = guarded(|| {
                    let len = TextSize::new((r1.e - r1.s) as u32);
                    let s = TextSize::new(r1.s as u32);
                    let e = TextSize::new(r1.e as u32);
                    let as_range: std::ops::Range<usize> = t1.into();
                    let as_range32: std::ops::Range<u32> = t1.into();
                    (
                        TextRange::at(s, len),
                        TextRange::empty(s),
                        TextRange::up_to(e),
                        TextRange::from(s..e),
                        t1.len(),
                        t1.is_empty(),
                        as_range,
                        as_range32,
                    )
                })
                .map_err(pc)?;
                let (at, empty, up_to, from, len, is_empty, as_range, as_range32) = got;
                if iv_of(at) != r1 {
                    bad.push(format!("at({}, {}) = {:?}", r1.s, r1.e - r1.s, at));
                }
                if iv_of(empty) != (Iv { s: r1.s, e: r1.s }) || !empty.is_empty() {
                    bad.push(format!("empty({}) = {:?}", r1.s, empty));
                }
                if iv_of(up_to) != (Iv { s: 0, e: r1.e }) {
                    bad.push(format!("up_to({}) = {:?}", r1.e, up_to));
                }
                if iv_of(from) != r1 {
                    bad.push("From<Range<TextSize>>".into());
                }
                if len.to_u32() as u64 != r1.e - r1.s || is_empty != (r1.s == r1.e) {
                    bad.push(format!("len/is_empty of {:?}", t1));
                }
                if as_range != (r1.s as usize..r1.e as usize) || as_range32 != (r1.s as u32..r1.e as u32) {
                    bad.push("Into<Range<_>>".into());
                }
            }
            _ => {
                // slicing the text by a pool range (after removing the base), and start/end edits
                let text = self.text;
                let b = self.base as u64;
                if r1.s >= b && r1.e <= b + text.len() as u64 {
                    let (s, e) = ((r1.s - b) as usize, (r1.e - b) as usize);
                    if text.is_char_boundary(s) && text.is_char_boundary(e) {
                        let got = guarded(|| {
                            let local = t1 - TextSize::new(self.base);
                            let mut owned = text.to_string();
                            let by_index = (text[local].to_string(), owned[local].to_string());
                            // IndexMut: upper-case exactly the selected slice
                            owned[local].make_ascii_uppercase();
                            let mut boxed: Box<str> = text.into();
                            boxed[local].make_ascii_uppercase();
                            (by_index.0, by_index.1, owned, boxed.to_string())
                        })
                        .map_err(pc)?;
                        let mut want_upper = text.to_string();
                        want_upper[s..e].make_ascii_uppercase();
                        if got.0 != text[s..e] || got.1 != text[s..e] {
                            bad.push(format!("str[{:?} - base] = {:?}", t1, got.0));
                        }
                        if got.2 != want_upper || got.3 != want_upper {
                            bad.push(format!("IndexMut<TextRange> touched the wrong slice for {:?}", t1));
                        }
                    }
                }
                let len = r1.e - r1.s;
                let d = if len == 0 { 0 } else { sel % (len + 1) };
                let td = TextSize::new(d as u32);
                let got = guarded(|| (t1.add_start(td), t1.sub_end(td))).map_err(pc)?;
                if iv_of(got.0) != (Iv { s: r1.s + d, e: r1.e }) || iv_of(got.1) != (Iv { s: r1.s, e: r1.e - d }) {
                    bad.push(format!("add_start/sub_end({d}) of {:?} = {:?}", t1, got));
                }
                let d2 = (sel % 5).min(r1.s).min(MAX - r1.e);
                let td2 = TextSize::new(d2 as u32);
                let got = guarded(|| (t1.sub_start(td2), t1.add_end(td2))).map_err(pc)?;
                if iv_of(got.0) != (Iv { s: r1.s - d2, e: r1.e }) || iv_of(got.1) != (Iv { s: r1.s, e: r1.e + d2 }) {
                    bad.push(format!("sub_start/add_end({d2}) of {:?} = {:?}", t1, got));
                }
            }
        }
        if bad.is_empty() {
            Ok(())
        } else {
            Err(("range-algebra".to_string(), bad.join("; ")))
        }
    }

    fn size_op(&mut self, op: Op) -> Res {
        const MAX: u64 = u32::MAX as u64;
        let a = self.pick_iv(op.a).e;
        let b = self.pick_iv(op.b).s;
        let pc = |p: String| (format!("panic:{}", panic_class(&p)), p);
        let (ta, tb) = (TextSize::new(a as u32), TextSize::new(b as u32));
        let mut bad = Vec::new();
        let got = guarded(|| (ta.checked_add(tb), ta.checked_sub(tb))).map_err(pc)?;
        let want_add = if a + b <= MAX { Some(a + b) } else { None };
        let want_sub = if a >= b { Some(a - b) } else { None };
        if got.0.map(|x| x.to_u32() as u64) != want_add {
            bad.push(format!("TextSize {a}.checked_add({b}) = {:?}", got.0));
        }
        if got.1.map(|x| x.to_u32() as u64) != want_sub {
            bad.push(format!("TextSize {a}.checked_sub({b}) = {:?}", got.1));
        }
        if let Some(s) = want_add {
            let g = guarded(|| {
                let mut x = ta;
                x += tb;
                (ta + tb, &ta + tb, ta + &tb, x, [ta, tb].iter().sum::<TextSize>(), [ta, tb].into_iter().sum::<TextSize>(), &ta + &tb, TextSize::from(a as u32) + TextSize::from(b as u32))
            })
            .map_err(pc)?;
            if [g.0, g.1, g.2, g.3, g.4, g.5, g.6, g.7].iter().any(|x| x.to_u32() as u64 != s) {
                bad.push(format!("TextSize {a} + {b} = {:?}", g));
            }
        }
        if let Some(s) = want_sub {
            let g = guarded(|| {
                let mut x = ta;
                x -= tb;
                (ta - tb, &ta - tb, x, ta - &tb, &ta - &tb)
            })
            .map_err(pc)?;
            if [g.0, g.1, g.2, g.3, g.4].iter().any(|x| x.to_u32() as u64 != s) {
                bad.push(format!("TextSize {a} - {b} = {:?}", g));
            }
        }
        // conversions and text lengths
        let text = self.text;
        let g = guarded(|| {
            (
                TextSize::of(text),
                text.text_len(),
                TextSize::try_from(a as usize).ok(),
                usize::from(ta),
                u32::from(ta),
                ta.to_usize(),
                text.chars().map(TextSize::of).sum::<TextSize>(),
                ta.cmp(&tb),
            )
        })
        .map_err(pc)?;
        if g.0.to_u32() as usize != text.len() || g.1 != g.0 || g.6 != g.0 {
            bad.push("TextSize::of / text_len / Sum over chars".to_string());
        }
        if g.2 != Some(ta) || g.3 != a as usize || g.4 as u64 != a || g.5 != a as usize {
            bad.push("TextSize conversions".to_string());
        }
        if g.7 != a.cmp(&b) {
            bad.push("TextSize ordering".to_string());
        }
        // OneIndexed: the row/column number type
        let z = (a % 1000) as u32;
        let g = guarded(|| {
            let one = OneIndexed::from_zero_indexed(z);
            (
                one.get(),
                one.to_zero_indexed(),
                one.to_usize(),
                one.to_zero_indexed_usize(),
                OneIndexed::new(z + 1) == Some(one),
                OneIndexed::new(0).is_none(),
                one.saturating_add(2).get(),
                one.saturating_sub(z + 5) == OneIndexed::MIN,
                OneIndexed::MAX.saturating_add(1) == OneIndexed::MAX,
                OneIndexed::try_from_zero_indexed(z as usize).ok() == Some(one),
                OneIndexed::MIN.get(),
                format!("{one}"),
            )
        })
        .map_err(pc)?;
        if g != (z + 1, z, z as usize + 1, z as usize, true, true, z + 3, true, true, true, 1, format!("{}", z + 1)) {
            bad.push(format!("OneIndexed arithmetic for zero-based {z}: {:?}", g));
        }
        // find_newline and LineEnding on the current window
        let w = &text[self.f..self.b];
        let fnl = guarded(|| find_newline(w)).map_err(pc)?;
        let want = model::split_lines(w).first().and_then(|l| {
            if l.full_end > l.end {
                Some((l.end, l.full_end - l.end, &w[l.end..l.full_end]))
            } else {
                None
            }
        });
        match (fnl, want) {
            (None, None) => {}
            (Some((pos, le)), Some((wpos, wlen, wstr))) => {
                let ok = pos == wpos
                    && le.len() == wlen
                    && le.as_str() == wstr
                    && le.text_len().to_u32() as usize == wlen
                    && matches!(
                        (le, wstr),
                        (LineEnding::Lf, "\n") | (LineEnding::Cr, "\r") | (LineEnding::CrLf, "\r\n")
                    );
                if !ok {
                    bad.push(format!("find_newline({:?}) = ({pos}, {:?})", w, le));
                }
            }
            (g, w2) => bad.push(format!("find_newline({:?}) = {:?}, model {:?}", w, g, w2.map(|x| x.0))),
        }
        // the extension trait is the same iterator
        let n = guarded(|| w.universal_newlines().take(w.len() + 2).count()).map_err(pc)?;
        if n != model::split_lines(w).len() {
            bad.push(format!("universal_newlines().count() = {n}"));
        }
        if bad.is_empty() {
            Ok(())
        } else {
            Err(("size-ops".to_string(), bad.join("; ")))
        }
    }
}

pub fn execute(case: &Case, stats: &mut Stats) -> Outcome {
    // the text as the library sees it: a slice that starts `align` bytes into a buffer
    let mut buf = String::with_capacity(case.text.len() + 8);
    for _ in 0..case.align {
        buf.push('#');
    }
    buf.push_str(&case.text);
    let text: &str = &buf[case.align as usize..];
    if case.align > 0 {
        stats.bump(C::fault_unaligned_text_address as usize);
    }
    let mut dg = Digest::default();
    dg.str(text);
    dg.word(case.base as u64);
    dg.byte(case.trailing as u8);
    dg.byte(case.align);
    for o in &case.others {
        dg.str(o);
    }
    if case.base as u64 + text.len() as u64 > u32::MAX as u64 {
        return Outcome {
            digest: dg.0,
            steps: 0,
            violation: None,
            harness_error: Some("case outside the domain: base + len > u32::MAX".into()),
        };
    }
    if case.base as u64 + text.len() as u64 > u32::MAX as u64 - 8 && case.base > 0 {
        stats.bump(C::fault_high_base_offset as usize);
    }
    if case.trailing {
        stats.bump(C::runs_trailing_variant as usize);
    }
    if text.len() > 64 {
        stats.bump(C::runs_long_text as usize);
    }
    // handles: a pre-built index, a lazily indexed file, a pre-indexed file
    let built = guarded(|| {
        let ix = LineIndex::from_source_text(text);
        let lazy = SourceFileBuilder::new("sim.py", text).finish();
        let eager = SourceFileBuilder::new("sim.py", text).line_index(ix.clone()).finish();
        (ix, lazy, eager)
    });
    let (ix, lazy, eager) = match built {
        Ok(x) => x,
        Err(p) => {
            return Outcome {
                digest: dg.0,
                steps: 0,
                violation: Some(Violation {
                    class: format!("panic:{}", panic_class(&p)),
                    site: "build-index".into(),
                    step: 0,
                    detail: p,
                }),
                harness_error: None,
            }
        }
    };
    let rows = model::rows(text);
    let mut ex = Exec {
        text,
        base: case.base,
        trailing: case.trailing,
        it: Exec::new_iter(text, 0, text.len(), case.base, case.trailing),
        f: 0,
        b: text.len(),
        trailing_pending: case.trailing && (text.ends_with('\n') || text.ends_with('\r')),
        front_epoch: 0,
        back_epoch: text.len(),
        front_yield: Vec::new(),
        back_yield: Vec::new(),
        last_yield_front: None,
        used_front: false,
        used_back: false,
        pulls: 0,
        handles: vec![Handle::Index(ix), Handle::File(lazy, true), Handle::File(eager, false)],
        cur: 0,
        lazy_untouched: true,
        pool: Vec::new(),
        others: &case.others,
        other_files: case.others.iter().map(|_| None).collect(),
        stats,
        dg,
        rows,
    };
    let _ = ex.last_yield_front;
    // line starts of the index against the model rows, once per run
    let mut violation = None;
    {
        let starts_ok = match &ex.handles[0] {
            Handle::Index(ix) => {
                ix.line_starts().len() == ex.rows.len()
                    && ix.line_starts().iter().zip(ex.rows.iter()).all(|(a, b)| a.to_u32() as usize == b.0)
                    && ix.len() == ex.rows.len() // Deref<[TextSize]>
            }
            _ => true,
        };
        if !starts_ok {
            violation = Some(Violation {
                class: "step-mismatch".into(),
                site: "LineStarts".into(),
                step: 0,
                detail: "LineIndex::line_starts differs from the model rows".into(),
            });
        }
    }
    let mut steps = 0u64;
    if violation.is_none() {
        if let Err((class, detail)) = ex.invariants(K::SwitchHandle) {
            violation = Some(Violation { class, site: "Init".into(), step: 0, detail });
        }
    }
    if violation.is_none() {
        for (i, op) in case.ops.iter().enumerate() {
            steps += 1;
            let r = ex.step(*op).and_then(|_| ex.invariants(op.k));
            if let Err((class, detail)) = r {
                violation = Some(Violation {
                    class,
                    site: op.k.name().to_string(),
                    step: i,
                    detail,
                });
                break;
            }
        }
    }
    // post-run history check: everything yielded plus the unconsumed window is the epoch text
    if violation.is_none() {
        let mut cat = String::new();
        for l in &ex.front_yield {
            cat.push_str(&text[l.start..l.full_end]);
        }
        cat.push_str(&text[ex.f..ex.b]);
        for l in ex.back_yield.iter().rev() {
            cat.push_str(&text[l.start..l.full_end]);
        }
        if cat != text[ex.front_epoch..ex.back_epoch] {
            violation = Some(Violation {
                class: "conservation".into(),
                site: "History".into(),
                step: case.ops.len(),
                detail: "yielded lines + unconsumed window do not concatenate to the text".into(),
            });
        }
    }
    // post-run: every handle (direct index, lazily indexed file, pre-indexed file, clones) agrees
    // with the model on the shape of the text, whatever the history did with them
    if violation.is_none() {
        let n_rows = ex.rows.len();
        let (ls, le) = ex.rows[n_rows - 1];
        for h in 0..ex.handles.len() {
            ex.cur = h;
            let got = guarded(|| {
                ex.source_code(|sc| {
                    let last = OneIndexed::from_zero_indexed(n_rows as u32 - 1);
                    (sc.line_count(), sc.line_start(last).to_usize(), sc.line_end(last).to_usize())
                })
            });
            match got {
                Ok(g) if g == (n_rows, ls, le) => {}
                Ok(g) => {
                    violation = Some(Violation {
                        class: "step-mismatch".into(),
                        site: "HandlesAtEnd".into(),
                        step: case.ops.len(),
                        detail: format!("handle #{h}: (line_count, start and end of the last row) = {:?}, model {:?}", g, (n_rows, ls, le)),
                    });
                    break;
                }
                Err(p) => {
                    violation = Some(Violation {
                        class: format!("panic:{}", panic_class(&p)),
                        site: "HandlesAtEnd".into(),
                        step: case.ops.len(),
                        detail: p,
                    });
                    break;
                }
            }
        }
    }
    // small-scope coverage bookkeeping
    if let Some(id) = small_text_id(text) {
        ex.stats.bump(C::runs_small_scope as usize);
        ex.stats.note_num("small_texts", id);
        let style = match (ex.used_front, ex.used_back) {
            (true, false) => 1,
            (false, true) => 2,
            (true, true) => 3,
            _ => 0,
        };
        ex.stats.note_num("small_text_styles", id * 4 + style);
        // distinct (text, order of front/back pulls) pairs: the interleavings actually explored
        // on the dense small-scope texts
        if ex.stats.num_sets.get("small_text_interleavings").map_or(0, |s| s.len()) < (1 << 20) {
            ex.stats.note_num("small_text_interleavings", crate::rng::derive(id, &[ex.pulls]));
        }
    }
    let digest = ex.dg.0;
    // distinct non-trivial cases: at least one line break or multi-byte char in the text and
    // at least one iterator pull
    let nontrivial = (text.contains(['\n', '\r']) || !text.is_ascii()) && (ex.used_front || ex.used_back);
    if nontrivial {
        ex.stats.note_distinct(digest);
    }
    Outcome {
        digest,
        steps,
        violation,
        harness_error: None,
    }
}

/// Index of a text over the 6-symbol alphabet with at most 4 symbols (1 555 texts), if it is one.
pub fn small_text_id(text: &str) -> Option<u64> {
    let mut id = 0u64;
    let mut n = 0;
    for ch in text.chars() {
        let d = match ch {
            '\n' => 0,
            '\r' => 1,
            'a' => 2,
            'é' => 3,
            '😀' => 4,
            '\u{feff}' => 5,
            _ => return None,
        };
        n += 1;
        if n > 4 {
            return None;
        }
        id = id * 6 + d + 1; // bijective base-6 so that lengths are distinguished
    }
    Some(id)
}

pub const SMALL_TEXT_SPACE: u64 = 1 + 6 + 36 + 216 + 1296;

// ------------------------------------------------------------------------------------------
// shrinking, JSON

fn shrink_text_candidates(text: &str) -> Vec<String> {
    let mut out = Vec::new();
    let chars: Vec<char> = text.chars().collect();
    let n = chars.len();
    if n == 0 {
        return out;
    }
    // halves, then single characters
    for rem in chunk_removals(&chars) {
        if rem.len() < n {
            out.push(rem.into_iter().collect());
        }
    }
    // simplify characters (each candidate is a copy of the text: only for small texts)
    for i in 0..if n <= 600 { n } else { 0 } {
        let repl = match chars[i] {
            'a' | '\n' => continue,
            '\r' if i + 1 < n && chars[i + 1] == '\n' => continue, // removing a char already covers it
            '\r' => '\n',
            _ => 'a',
        };
        let mut c2 = chars.clone();
        c2[i] = repl;
        out.push(c2.into_iter().collect());
    }
    out
}

pub fn shrink(case: &Case) -> Vec<Case> {
    let mut out = Vec::new();
    for ops in chunk_removals(&case.ops) {
        out.push(Case { ops, ..case.clone() });
    }
    for text in shrink_text_candidates(&case.text) {
        let mut c = case.clone();
        // keep base + len in the domain: a shorter text always is
        c.text = text;
        out.push(c);
    }
    if case.base != 0 {
        out.push(Case { base: 0, ..case.clone() });
        let near = (u32::MAX as u64 - case.text.len() as u64) as u32;
        if case.base != near && case.base > 1000 {
            out.push(Case { base: near, ..case.clone() });
        }
    }
    if case.trailing {
        out.push(Case { trailing: false, ..case.clone() });
    }
    if case.align > 0 {
        out.push(Case { align: 0, ..case.clone() });
    }
    for i in 0..case.others.len() {
        let mut c = case.clone();
        c.others.remove(i);
        out.push(c);
        for t in shrink_text_candidates(&case.others[i]) {
            let mut c = case.clone();
            c.others[i] = t;
            out.push(c);
        }
    }
    // canonicalise operation arguments
    for (i, op) in case.ops.iter().enumerate() {
        for (a, b, c) in [(0, 0, 0), (op.a % 64, op.b % 64, op.c % 169), (op.a, 0, op.c), (0, op.b, op.c), (op.a, op.b, op.c % 13)] {
            if (a, b, c) != (op.a, op.b, op.c) && (a <= op.a && b <= op.b && c <= op.c) {
                let mut c2 = case.clone();
                c2.ops[i] = Op { k: op.k, a, b, c };
                out.push(c2);
            }
        }
        // prefer simpler operations
        let simpler = match op.k {
            K::Nth => Some(K::Next),
            K::NthBack => Some(K::NextBack),
            K::RestartTornFront | K::RestartTornBack => Some(K::RestartAligned),
            _ => None,
        };
        if let Some(k) = simpler {
            let mut c2 = case.clone();
            c2.ops[i].k = k;
            out.push(c2);
        }
    }
    out
}

pub fn case_size(case: &Case) -> usize {
    // ops dominate, then text length, then argument magnitude (so canonicalisation is progress)
    let args: usize = case
        .ops
        .iter()
        .map(|o| {
            (64 - (o.a as u64).leading_zeros() as usize)
                + (64 - (o.b as u64).leading_zeros() as usize)
                + (64 - (o.c as u64).leading_zeros() as usize)
                + match o.k {
                    K::Nth | K::NthBack | K::RestartTornFront | K::RestartTornBack => 1,
                    _ => 0,
                }
        })
        .sum();
    case.ops.len() * 100_000
        + case.text.len() * 1000
        + args
        + (case.base != 0) as usize * 300
        + (case.base > 1000) as usize * 64
        + case.trailing as usize * 200
        + case.align as usize * 20
        + case.others.len() * 2000
        + case.others.iter().map(|o| o.len() * 1000 + o.chars().filter(|c| !matches!(c, 'a' | '\n')).count() * 10).sum::<usize>()
        + case.text.chars().filter(|c| !matches!(c, 'a' | '\n')).count() * 10
}

pub fn case_to_json(case: &Case) -> J {
    obj(vec![
        ("text", case.text.as_str().into()),
        ("base_offset", case.base.into()),
        ("trailing_variant", case.trailing.into()),
        ("text_starts_at_buffer_offset", (case.align as u32).into()),
        ("other_files", J::Arr(case.others.iter().map(|o| J::Str(o.clone())).collect())),
        (
            "ops",
            J::Arr(
                case.ops
                    .iter()
                    .map(|o| J::Arr(vec![o.k.name().into(), o.a.into(), o.b.into(), o.c.into()]))
                    .collect(),
            ),
        ),
    ])
}

pub fn case_from_json(j: &J) -> Result<Case, String> {
    let text = j.get("text").and_then(J::as_str).ok_or("case.text")?.to_string();
    let base = j.get("base_offset").and_then(J::as_u64).ok_or("case.base_offset")? as u32;
    let trailing = j.get("trailing_variant").and_then(J::as_bool).unwrap_or(false);
    let mut ops = Vec::new();
    for o in j.get("ops").and_then(J::as_arr).ok_or("case.ops")? {
        let a = o.as_arr().ok_or("op")?;
        let k = K::from_name(a.first().and_then(J::as_str).ok_or("op kind")?).ok_or("unknown op kind")?;
        let g = |i: usize| a.get(i).and_then(J::as_u64).unwrap_or(0) as u32;
        ops.push(Op { k, a: g(1), b: g(2), c: g(3) });
    }
    let others = j
        .get("other_files")
        .and_then(J::as_arr)
        .map(|a| a.iter().filter_map(|x| x.as_str().map(str::to_string)).collect())
        .unwrap_or_default();
    let align = j.get("text_starts_at_buffer_offset").and_then(J::as_u64).unwrap_or(0) as u8;
    Ok(Case { text, base, trailing, ops, others, align })
}

pub struct HistLayer;

impl Layer for HistLayer {
    type Case = Case;
    fn name(&self) -> &'static str {
        "hist"
    }
    fn property(&self) -> &'static str {
        "C15"
    }
    fn counter_names(&self) -> &'static [&'static str] {
        COUNTER_NAMES
    }
    fn chunk_runs(&self) -> u64 {
        16384
    }
    fn required_probes(&self, config: u64) -> Vec<usize> {
        let mut v = vec![
            C::probe_back_crlf_trim as usize,
            C::probe_back_lone_cr as usize,
            C::probe_back_lone_lf as usize,
            C::probe_front_crlf as usize,
            C::probe_front_lone_cr as usize,
            C::probe_cursors_met_by_alternation as usize,
            C::probe_only_a_break_left as usize,
            C::probe_trailing_empty_line_yielded as usize,
            C::probe_bom_adjusted_column as usize,
            C::probe_offset_at_eof_after_break as usize,
            C::probe_offset_inside_crlf as usize,
            C::probe_nonascii_column as usize,
            C::probe_checked_add_none as usize,
            C::probe_checked_sub_none as usize,
            C::probe_add_panics_on_overflow as usize,
            C::probe_intersect_none as usize,
            C::probe_intersect_touching as usize,
            C::probe_lazy_index_first_touch as usize,
            C::probe_index_cross_check as usize,
            C::probe_other_file_built as usize,
        ];
        if config == 1 {
            v.extend([
                C::fault_restart_aligned_midway as usize,
                C::fault_restart_torn_inside_crlf as usize,
                C::fault_restart_torn_other as usize,
                C::fault_by_value_consumption as usize,
                C::fault_high_base_offset as usize,
                C::fault_unaligned_text_address as usize,
                C::probe_window_starts_with_torn_lf as usize,
                C::probe_range_end_near_u32_max as usize,
            ]);
        }
        v
    }
    fn generate(&self, run_seed: u64, config: u64, scale: u32) -> Case {
        generate(run_seed, config, scale)
    }
    fn execute(&self, case: &Case, stats: &mut Stats) -> Outcome {
        execute(case, stats)
    }
    fn shrink(&self, case: &Case) -> Vec<Case> {
        shrink(case)
    }
    fn case_to_json(&self, case: &Case) -> J {
        case_to_json(case)
    }
    fn case_from_json(&self, j: &J) -> Result<Case, String> {
        case_from_json(j)
    }
    fn case_size(&self, case: &Case) -> usize {
        case_size(case)
    }
}
