//! Common machinery: layers, runs, statistics, batch driver, minimiser, replay files.

use crate::json::{obj, J};
use crate::rng::derive;
use std::collections::{BTreeMap, BTreeSet, HashSet};
use std::panic::{catch_unwind, AssertUnwindSafe};
use std::sync::atomic::{AtomicBool, AtomicU64, Ordering};
use std::sync::{Arc, Mutex};
use std::time::{Duration, Instant};

/// A property violation observed in one run.
#[derive(Clone, Debug, PartialEq, Eq)]
pub struct Violation {
    /// what kind of oracle failed (`step-mismatch`, `conservation`, `panic`, `fold-order`, ...)
    pub class: String,
    /// where, structurally (operation kind, node path, ...); `class` + `site` is the
    /// key used by the minimiser and by known_findings.json
    pub site: String,
    /// index of the operation (or node) at which it was observed
    pub step: usize,
    /// free text for humans
    pub detail: String,
}

impl Violation {
    pub fn key(&self) -> String {
        format!("{}@{}", self.class, self.site)
    }
    pub fn to_json(&self) -> J {
        obj(vec![
            ("class", self.class.as_str().into()),
            ("site", self.site.as_str().into()),
            ("step", self.step.into()),
            ("detail", self.detail.as_str().into()),
        ])
    }
}

pub struct Outcome {
    pub digest: u64,
    pub steps: u64,
    pub violation: Option<Violation>,
    /// a harness-side inconsistency (never a property violation): exit 2
    pub harness_error: Option<String>,
}

/// Order-independent statistics of a batch (sums and set unions only, so that the
/// result does not depend on which worker ran which run).
#[derive(Default, Clone)]
pub struct Stats {
    pub counters: Vec<u64>,
    pub states: HashSet<u64>,
    pub distinct: HashSet<u64>,
    pub sets: BTreeMap<&'static str, BTreeSet<String>>,
    pub num_sets: BTreeMap<&'static str, HashSet<u64>>,
}

impl Stats {
    pub fn new(n_counters: usize) -> Self {
        Stats {
            counters: vec![0; n_counters],
            ..Default::default()
        }
    }
    #[inline]
    pub fn bump(&mut self, id: usize) {
        self.counters[id] += 1;
    }
    #[inline]
    pub fn add(&mut self, id: usize, n: u64) {
        self.counters[id] += n;
    }
    /// Count a distinct non-trivial case by its fingerprint. Bounded (per worker) so that long
    /// thorough batches do not grow without limit; the reported number is then a lower bound.
    pub fn note_distinct(&mut self, digest: u64) {
        if self.distinct.len() < (1 << 21) {
            self.distinct.insert(digest);
        }
    }
    pub fn note(&mut self, set: &'static str, item: &str) {
        let s = self.sets.entry(set).or_default();
        if !s.contains(item) {
            s.insert(item.to_string());
        }
    }
    pub fn note_num(&mut self, set: &'static str, item: u64) {
        self.num_sets.entry(set).or_default().insert(item);
    }
    pub fn merge(&mut self, other: Stats) {
        if self.counters.len() < other.counters.len() {
            self.counters.resize(other.counters.len(), 0);
        }
        for (i, c) in other.counters.iter().enumerate() {
            self.counters[i] += c;
        }
        self.states.extend(other.states);
        self.distinct.extend(other.distinct);
        for (k, v) in other.sets {
            self.sets.entry(k).or_default().extend(v);
        }
        for (k, v) in other.num_sets {
            self.num_sets.entry(k).or_default().extend(v);
        }
    }
}

/// What one simulation layer must provide.
pub trait Layer: Sync {
    type Case: Clone + Send;
    /// short name, e.g. `c15-hist`
    fn name(&self) -> &'static str;
    fn property(&self) -> &'static str;
    /// names of the counters, index = counter id
    fn counter_names(&self) -> &'static [&'static str];
    /// counters that must be non-zero in a full batch (probes); a probe stuck at zero is a
    /// harness self-check failure (exit 2), never a property violation
    fn required_probes(&self, _config: u64) -> Vec<usize> {
        Vec::new()
    }
    /// Harness self-check over the merged statistics of a batch (never a property verdict).
    fn self_check(&self, _stats: &Stats) -> Option<String> {
        None
    }
    /// Generate the case of one run. `config` selects the batch configuration
    /// (e.g. 0 = fault-free, 1 = fault-injecting); pure function of its arguments.
    fn generate(&self, run_seed: u64, config: u64, scale: u32) -> Self::Case;
    fn execute(&self, case: &Self::Case, stats: &mut Stats) -> Outcome;
    /// Candidate simplifications of a failing case, most aggressive first.
    fn shrink(&self, case: &Self::Case) -> Vec<Self::Case>;
    fn case_to_json(&self, case: &Self::Case) -> J;
    fn case_from_json(&self, j: &J) -> Result<Self::Case, String>;
    /// measure of the case's size (the minimiser only accepts non-increasing sizes)
    fn case_size(&self, case: &Self::Case) -> usize;
}

// ---------------------------------------------------------------------------------------
// panic capture

thread_local! {
    static QUIET: std::cell::Cell<bool> = const { std::cell::Cell::new(false) };
    static LAST_PANIC: std::cell::RefCell<Option<String>> = const { std::cell::RefCell::new(None) };
}

pub fn install_panic_hook() {
    static ONCE: std::sync::Once = std::sync::Once::new();
    ONCE.call_once(|| {
        let default = std::panic::take_hook();
        std::panic::set_hook(Box::new(move |info| {
            if QUIET.with(|q| q.get()) {
                let msg = if let Some(s) = info.payload().downcast_ref::<&str>() {
                    s.to_string()
                } else if let Some(s) = info.payload().downcast_ref::<String>() {
                    s.clone()
                } else {
                    "<non-string panic>".to_string()
                };
                let loc = info
                    .location()
                    .map(|l| format!("{}:{}", l.file(), l.line()))
                    .unwrap_or_default();
                LAST_PANIC.with(|p| *p.borrow_mut() = Some(format!("{msg} [{loc}]")));
            } else {
                default(info);
            }
        }));
    });
}

/// Run `f`, turning a panic inside it into `Err(message [file:line])`.
pub fn guarded<T>(f: impl FnOnce() -> T) -> Result<T, String> {
    let prev = QUIET.with(|q| q.replace(true));
    let r = catch_unwind(AssertUnwindSafe(f));
    QUIET.with(|q| q.set(prev));
    match r {
        Ok(v) => Ok(v),
        Err(_) => Err(LAST_PANIC
            .with(|p| p.borrow_mut().take())
            .unwrap_or_else(|| "<panic>".to_string())),
    }
}

/// Reduce a panic message to a stable class: the source file's base name plus the first
/// words of the message, with numbers removed (so the class survives minimisation).
pub fn panic_class(msg: &str) -> String {
    let (text, loc) = match msg.rfind(" [") {
        Some(i) => (&msg[..i], msg[i + 2..].trim_end_matches(']')),
        None => (msg, ""),
    };
    let file = loc.rsplit('/').next().unwrap_or("").split(':').next().unwrap_or("");
    let mut words = String::new();
    for w in text.split_whitespace().take(6) {
        let w: String = w.chars().filter(|c| c.is_ascii_alphabetic() || *c == '_').collect();
        if !w.is_empty() {
            if !words.is_empty() {
                words.push('_');
            }
            words.push_str(&w);
        }
        if words.len() > 40 {
            break;
        }
    }
    format!("{file}:{words}")
}

// ---------------------------------------------------------------------------------------
// batch driver

pub struct BatchCfg {
    pub seed: u64,
    pub config: u64,
    pub scale: u32,
    /// fixed number of runs (quick tier) ...
    pub runs: u64,
    /// ... or, when set, keep starting chunks of runs until this much wall time has passed
    /// (thorough tier). A started run always finishes; the number of runs is reported.
    pub time_budget: Option<Duration>,
    pub workers: usize,
    pub samples: usize,
}

pub struct Failure<C> {
    pub run: u64,
    pub run_seed: u64,
    pub case: C,
    pub violation: Violation,
}

pub struct BatchResult<C> {
    pub runs: u64,
    pub steps: u64,
    pub stats: Stats,
    /// order-independent fingerprint of all (run index, run digest) pairs
    pub batch_digest: u64,
    /// first failing run per distinct violation key, lowest run index first
    pub failures: Vec<Failure<C>>,
    pub violating_runs: u64,
    pub harness_errors: Vec<String>,
    pub samples: Vec<(u64, C)>,
    pub wall: Duration,
    pub hang: Option<(u64, u64)>,
}

fn layer_tag(name: &str) -> u64 {
    let mut d = crate::rng::Digest::default();
    d.str(name);
    d.0
}

pub fn run_seed_for<L: Layer>(layer: &L, seed: u64, config: u64, run: u64) -> u64 {
    derive(seed, &[layer_tag(layer.name()), config, run])
}

const CHUNK: u64 = 256;
/// A single run normally takes well under a millisecond; one that has not finished after
/// this long is reported as a hang (liveness violation), with the case regenerated from
/// its seed. Real time is used for nothing else.
const HANG_AFTER: Duration = Duration::from_secs(120);

pub fn run_batch<L: Layer>(layer: &L, cfg: &BatchCfg) -> BatchResult<L::Case> {
    install_panic_hook();
    let t0 = Instant::now();
    let next_chunk = AtomicU64::new(0);
    let stop = AtomicBool::new(false);
    let total_chunks = cfg.runs.div_ceil(CHUNK);
    let n_counters = layer.counter_names().len();

    struct Shared<C> {
        stats: Stats,
        steps: u64,
        runs: u64,
        digest: u64,
        failures: BTreeMap<String, Failure<C>>,
        violating_runs: u64,
        harness_errors: Vec<String>,
        samples: Vec<(u64, C)>,
    }
    let shared = Mutex::new(Shared::<L::Case> {
        stats: Stats::new(n_counters),
        steps: 0,
        runs: 0,
        digest: 0,
        failures: BTreeMap::new(),
        violating_runs: 0,
        harness_errors: Vec::new(),
        samples: Vec::new(),
    });
    // per-worker "currently running" slots for the hang watchdog: (run index + 1, start ms)
    #[repr(align(128))] // one cache line per worker: no false sharing in the hot loop
    struct Slot(AtomicU64, AtomicU64);
    let slots: Arc<Vec<Slot>> =
        Arc::new((0..cfg.workers).map(|_| Slot(AtomicU64::new(0), AtomicU64::new(0))).collect());
    let hang: Mutex<Option<(u64, u64)>> = Mutex::new(None);
    let done = AtomicBool::new(false);

    std::thread::scope(|scope| {
        // watchdog
        {
            let slots = slots.clone();
            let hang = &hang;
            let done = &done;
            let stop = &stop;
            scope.spawn(move || {
                while !done.load(Ordering::Relaxed) {
                    std::thread::sleep(Duration::from_millis(200));
                    let now = t0.elapsed().as_millis() as u64;
                    for slot in slots.iter() {
                        let r = slot.0.load(Ordering::Relaxed);
                        let s = slot.1.load(Ordering::Relaxed);
                        if r != 0 && now.saturating_sub(s) > HANG_AFTER.as_millis() as u64 {
                            let mut h = hang.lock().unwrap();
                            if h.is_none() {
                                *h = Some((r - 1, 0));
                            }
                            stop.store(true, Ordering::Relaxed);
                            done.store(true, Ordering::Relaxed);
                        }
                    }
                }
            });
        }
        let mut handles = Vec::new();
        for w in 0..cfg.workers {
            let shared = &shared;
            let next_chunk = &next_chunk;
            let stop = &stop;
            let slots = slots.clone();
            handles.push(scope.spawn(move || {
                let mut local = Stats::new(n_counters);
                let mut steps = 0u64;
                let mut runs = 0u64;
                let mut digest = 0u64;
                let mut violating = 0u64;
                let mut fails: Vec<Failure<L::Case>> = Vec::new();
                let mut herrs: Vec<String> = Vec::new();
                let mut samples: Vec<(u64, L::Case)> = Vec::new();
                loop {
                    if stop.load(Ordering::Relaxed) {
                        break;
                    }
                    let c = next_chunk.fetch_add(1, Ordering::Relaxed);
                    match cfg.time_budget {
                        None => {
                            if c >= total_chunks {
                                break;
                            }
                        }
                        Some(b) => {
                            // the fixed run count is a floor; beyond it, stop on time
                            if c >= total_chunks && t0.elapsed() >= b {
                                break;
                            }
                        }
                    }
                    let lo = c * CHUNK;
                    let hi = if cfg.time_budget.is_none() {
                        (lo + CHUNK).min(cfg.runs)
                    } else {
                        lo + CHUNK
                    };
                    for run in lo..hi {
                        let rs = run_seed_for(layer, cfg.seed, cfg.config, run);
                        slots[w].1.store(t0.elapsed().as_millis() as u64, Ordering::Relaxed);
                        slots[w].0.store(run + 1, Ordering::Relaxed);
                        let case = layer.generate(rs, cfg.config, cfg.scale);
                        let out = layer.execute(&case, &mut local);
                        slots[w].0.store(0, Ordering::Relaxed);
                        runs += 1;
                        steps += out.steps;
                        digest = digest.wrapping_add(derive(out.digest, &[run]));
                        if (run as usize) < cfg.samples {
                            samples.push((run, case.clone()));
                        }
                        if let Some(e) = out.harness_error {
                            if herrs.len() < 8 {
                                herrs.push(format!("run {run}: {e}"));
                            }
                        }
                        if let Some(v) = out.violation {
                            violating += 1;
                            let key = v.key();
                            if !fails.iter().any(|f| f.violation.key() == key) {
                                fails.push(Failure {
                                    run,
                                    run_seed: rs,
                                    case,
                                    violation: v,
                                });
                            }
                        }
                    }
                }
                let mut sh = shared.lock().unwrap();
                sh.stats.merge(local);
                sh.steps += steps;
                sh.runs += runs;
                sh.digest = sh.digest.wrapping_add(digest);
                sh.violating_runs += violating;
                sh.harness_errors.extend(herrs);
                sh.samples.extend(samples);
                for f in fails {
                    let key = f.violation.key();
                    match sh.failures.get(&key) {
                        Some(old) if old.run <= f.run => {}
                        _ => {
                            sh.failures.insert(key, f);
                        }
                    }
                }
            }));
        }
        // a worker stuck in a hang never joins; the watchdog flags it and we leave through
        // process exit in that case (see below)
        loop {
            if hang.lock().unwrap().is_some() || handles.iter().all(|h| h.is_finished()) {
                break;
            }
            std::thread::sleep(Duration::from_millis(5));
        }
        if hang.lock().unwrap().is_none() {
            for h in handles {
                if let Err(p) = h.join() {
                    std::panic::resume_unwind(p);
                }
            }
        }
        done.store(true, Ordering::Relaxed);
        if let Some((run, _)) = *hang.lock().unwrap() {
            // cannot unwind a spinning thread: report and leave the process
            let rs = run_seed_for(layer, cfg.seed, cfg.config, run);
            let case = layer.generate(rs, cfg.config, cfg.scale);
            let v = Violation {
                class: "hang".into(),
                site: "run".into(),
                step: 0,
                detail: format!("run {run} did not finish within {}s", HANG_AFTER.as_secs()),
            };
            let path = write_replay(layer, cfg, run, rs, &case, &v, 0, "hang");
            println!("VIOLATION property={} replay={}", layer.property(), path);
            std::process::exit(1);
        }
    });

    let sh = shared.into_inner().unwrap();
    let mut failures: Vec<Failure<L::Case>> = sh.failures.into_values().collect();
    failures.sort_by_key(|f| f.run);
    let mut samples = sh.samples;
    samples.sort_by_key(|s| s.0);
    let mut harness_errors = sh.harness_errors;
    harness_errors.sort();
    BatchResult {
        runs: sh.runs,
        steps: sh.steps,
        stats: sh.stats,
        batch_digest: sh.digest,
        failures,
        violating_runs: sh.violating_runs,
        harness_errors,
        samples,
        wall: t0.elapsed(),
        hang: None,
    }
}

// ---------------------------------------------------------------------------------------
// minimiser

/// Greedy fixpoint over the layer's shrink candidates while the same violation key persists.
pub fn minimise<L: Layer>(layer: &L, case: L::Case, key: &str) -> (L::Case, Violation, u64) {
    let mut scratch = Stats::new(layer.counter_names().len());
    let mut best = case;
    let out = layer.execute(&best, &mut scratch);
    let mut best_v = out.violation.expect("minimise: case does not fail");
    let mut best_digest = out.digest;
    let mut evals = 0u64;
    let deadline = Instant::now() + Duration::from_secs(60);
    'outer: loop {
        let cands = layer.shrink(&best);
        for cand in cands {
            if Instant::now() > deadline || evals > 200_000 {
                break 'outer;
            }
            if layer.case_size(&cand) > layer.case_size(&best) {
                continue;
            }
            evals += 1;
            let out = layer.execute(&cand, &mut scratch);
            if let Some(v) = out.violation {
                if v.key() == key {
                    let smaller = layer.case_size(&cand) < layer.case_size(&best);
                    let changed = layer.case_to_json(&cand) != layer.case_to_json(&best);
                    if smaller || changed {
                        // accept only strict progress in (size, then any canonicalising change
                        // that the layer proposes — layers never propose cycles)
                        best = cand;
                        best_v = v;
                        best_digest = out.digest;
                        continue 'outer;
                    }
                }
            }
        }
        break;
    }
    (best, best_v, best_digest)
}

// ---------------------------------------------------------------------------------------
// replay files

pub fn replay_dir() -> String {
    std::env::var("VERIF_REPLAY_DIR").unwrap_or_else(|_| "/verif/replays".to_string())
}

pub fn build_name() -> &'static str {
    if cfg!(debug_assertions) {
        if cfg!(feature = "all-nodes-with-ranges") {
            "dbg+allranges"
        } else {
            "dbg"
        }
    } else if cfg!(feature = "all-nodes-with-ranges") {
        "rel+allranges"
    } else {
        "rel"
    }
}

#[allow(clippy::too_many_arguments)]
pub fn write_replay<L: Layer>(
    layer: &L,
    cfg: &BatchCfg,
    run: u64,
    run_seed: u64,
    case: &L::Case,
    v: &Violation,
    digest: u64,
    tag: &str,
) -> String {
    let dir = replay_dir();
    let _ = std::fs::create_dir_all(&dir);
    let path = format!(
        "{}/{}-{}-{}-s{}-c{}-r{}{}.json",
        dir,
        layer.property(),
        layer.name(),
        build_name(),
        cfg.seed,
        cfg.config,
        run,
        if tag.is_empty() { String::new() } else { format!("-{tag}") }
    );
    let j = obj(vec![
        ("property", layer.property().into()),
        ("layer", layer.name().into()),
        ("build", build_name().into()),
        ("seed", cfg.seed.into()),
        ("config", cfg.config.into()),
        ("scale", cfg.scale.into()),
        ("run", run.into()),
        ("run_seed", J::Str(format!("{run_seed}"))),
        ("case", layer.case_to_json(case)),
        ("expected", v.to_json()),
        ("log_digest", J::Str(format!("{digest:016x}"))),
    ]);
    std::fs::write(&path, j.to_pretty()).expect("cannot write replay file");
    path
}

pub struct ReplayResult {
    pub reproduced: bool,
    pub violation: Option<Violation>,
    pub expected: Violation,
    pub digest_matches: bool,
}

pub fn replay<L: Layer>(layer: &L, j: &J) -> Result<ReplayResult, String> {
    install_panic_hook();
    let case = layer.case_from_json(j.get("case").ok_or("replay: no case")?)?;
    let e = j.get("expected").ok_or("replay: no expected")?;
    let expected = Violation {
        class: e.get("class").and_then(J::as_str).unwrap_or("").to_string(),
        site: e.get("site").and_then(J::as_str).unwrap_or("").to_string(),
        step: e.get("step").and_then(J::as_u64).unwrap_or(0) as usize,
        detail: e.get("detail").and_then(J::as_str).unwrap_or("").to_string(),
    };
    let want_digest = j.get("log_digest").and_then(J::as_str).unwrap_or("").to_string();
    let mut st = Stats::new(layer.counter_names().len());
    let out = layer.execute(&case, &mut st);
    if let Some(h) = out.harness_error {
        return Err(format!("harness error during replay: {h}"));
    }
    let reproduced = match &out.violation {
        Some(v) => v.key() == expected.key() && v.step == expected.step,
        None => false,
    };
    Ok(ReplayResult {
        reproduced,
        digest_matches: format!("{:016x}", out.digest) == want_digest,
        violation: out.violation,
        expected,
    })
}

// ---------------------------------------------------------------------------------------
// generic list shrinking helper (ddmin-style chunk removal)

/// Candidates obtained by deleting chunks of `xs`: halves, quarters, ..., single elements.
pub fn chunk_removals<T: Clone>(xs: &[T]) -> Vec<Vec<T>> {
    let n = xs.len();
    let mut out = Vec::new();
    if n == 0 {
        return out;
    }
    let mut size = n;
    loop {
        let mut start = 0;
        while start < n {
            let end = (start + size).min(n);
            let mut v = Vec::with_capacity(n - (end - start));
            v.extend_from_slice(&xs[..start]);
            v.extend_from_slice(&xs[end..]);
            out.push(v);
            start = end;
        }
        if size == 1 {
            break;
        }
        size = size.div_ceil(2);
        if out.len() > 4096 {
            break;
        }
    }
    out
}
