//! Common machinery: layers, runs, statistics, batch driver, minimiser, replay files.

use crate::json::{obj, J};
use crate::rng::derive;
use std::collections::{BTreeMap, BTreeSet, HashSet};
use std::panic::{catch_unwind, AssertUnwindSafe};
use std::sync::atomic::{AtomicBool, AtomicU64, Ordering};
use std::sync::Mutex;
use std::time::{Duration, Instant};

/// A property violation observed in one run.
#[derive(Clone, Debug, PartialEq, Eq)]
pub struct Violation {
    /// what kind of oracle failed (`step-mismatch`, `conservation`, `panic`, `fold-order`, ...)
    pub class: String,
    /// where, structurally (operation kind, node path, ...); `class` + `site` is the
    /// key used by the minimiser and by known_findings.json
    pub site: String,
    /// index of the operation (or node) at which it was observed
    pub step: usize,
    /// free text for humans
    pub detail: String,
}

impl Violation {
    pub fn key(&self) -> String {
        format!("{}@{}", self.class, self.site)
    }
    pub fn to_json(&self) -> J {
        obj(vec![
            ("class", self.class.as_str().into()),
            ("site", self.site.as_str().into()),
            ("step", self.step.into()),
            ("detail", self.detail.as_str().into()),
        ])
    }
}

pub struct Outcome {
    pub digest: u64,
    pub steps: u64,
    pub violation: Option<Violation>,
    /// a harness-side inconsistency (never a property violation): exit 2
    pub harness_error: Option<String>,
}

/// Order-independent statistics of a batch (sums and set unions only, so that the
/// result does not depend on which worker ran which run).
#[derive(Default, Clone)]
pub struct Stats {
    pub counters: Vec<u64>,
    pub states: HashSet<u64>,
    pub distinct: HashSet<u64>,
    pub sets: BTreeMap<&'static str, BTreeSet<String>>,
    pub num_sets: BTreeMap<&'static str, HashSet<u64>>,
}

impl Stats {
    pub fn new(n_counters: usize) -> Self {
        Stats {
            counters: vec![0; n_counters],
            ..Default::default()
        }
    }
    #[inline]
    pub fn bump(&mut self, id: usize) {
        self.counters[id] += 1;
    }
    #[inline]
    pub fn add(&mut self, id: usize, n: u64) {
        self.counters[id] += n;
    }
    /// Count a distinct non-trivial case by its fingerprint. Bounded (per worker) so that long
    /// thorough batches do not grow without limit; the reported number is then a lower bound.
    pub fn note_distinct(&mut self, digest: u64) {
        if self.distinct.len() < (1 << 21) {
            self.distinct.insert(digest);
        }
    }
    pub fn note(&mut self, set: &'static str, item: &str) {
        let s = self.sets.entry(set).or_default();
        if !s.contains(item) {
            s.insert(item.to_string());
        }
    }
    pub fn note_num(&mut self, set: &'static str, item: u64) {
        self.num_sets.entry(set).or_default().insert(item);
    }
    pub fn merge(&mut self, other: Stats) {
        if self.counters.len() < other.counters.len() {
            self.counters.resize(other.counters.len(), 0);
        }
        for (i, c) in other.counters.iter().enumerate() {
            self.counters[i] += c;
        }
        self.states.extend(other.states);
        self.distinct.extend(other.distinct);
        for (k, v) in other.sets {
            self.sets.entry(k).or_default().extend(v);
        }
        for (k, v) in other.num_sets {
            self.num_sets.entry(k).or_default().extend(v);
        }
    }
}

/// What one simulation layer must provide.
pub trait Layer: Sync {
    type Case: Clone + Send;
    /// short name, e.g. `c15-hist`
    fn name(&self) -> &'static str;
    fn property(&self) -> &'static str;
    /// names of the counters, index = counter id
    fn counter_names(&self) -> &'static [&'static str];
    /// counters that must be non-zero in a full batch (probes); a probe stuck at zero is a
    /// harness self-check failure (exit 2), never a property violation
    fn required_probes(&self, _config: u64) -> Vec<usize> {
        Vec::new()
    }
    /// Runs per chunk (= per fresh process). Fixed per layer: it is part of what a seed means.
    fn chunk_runs(&self) -> u64 {
        8192
    }
    /// Harness self-check over the merged statistics of a batch (never a property verdict).
    fn self_check(&self, _stats: &Stats) -> Option<String> {
        None
    }
    /// Generate the case of one run. `config` selects the batch configuration
    /// (e.g. 0 = fault-free, 1 = fault-injecting); pure function of its arguments.
    fn generate(&self, run_seed: u64, config: u64, scale: u32) -> Self::Case;
    fn execute(&self, case: &Self::Case, stats: &mut Stats) -> Outcome;
    /// Candidate simplifications of a failing case, most aggressive first.
    fn shrink(&self, case: &Self::Case) -> Vec<Self::Case>;
    fn case_to_json(&self, case: &Self::Case) -> J;
    fn case_from_json(&self, j: &J) -> Result<Self::Case, String>;
    /// measure of the case's size (the minimiser only accepts non-increasing sizes)
    fn case_size(&self, case: &Self::Case) -> usize;
}

// ---------------------------------------------------------------------------------------
// panic capture

thread_local! {
    static QUIET: std::cell::Cell<bool> = const { std::cell::Cell::new(false) };
    static LAST_PANIC: std::cell::RefCell<Option<String>> = const { std::cell::RefCell::new(None) };
}

pub fn install_panic_hook() {
    static ONCE: std::sync::Once = std::sync::Once::new();
    ONCE.call_once(|| {
        let default = std::panic::take_hook();
        std::panic::set_hook(Box::new(move |info| {
            if QUIET.with(|q| q.get()) {
                let msg = if let Some(s) = info.payload().downcast_ref::<&str>() {
                    s.to_string()
                } else if let Some(s) = info.payload().downcast_ref::<String>() {
                    s.clone()
                } else {
                    "<non-string panic>".to_string()
                };
                let loc = info
                    .location()
                    .map(|l| format!("{}:{}", l.file(), l.line()))
                    .unwrap_or_default();
                LAST_PANIC.with(|p| *p.borrow_mut() = Some(format!("{msg} [{loc}]")));
            } else {
                default(info);
            }
        }));
    });
}

/// Run `f`, turning a panic inside it into `Err(message [file:line])`.
pub fn guarded<T>(f: impl FnOnce() -> T) -> Result<T, String> {
    let prev = QUIET.with(|q| q.replace(true));
    let r = catch_unwind(AssertUnwindSafe(f));
    QUIET.with(|q| q.set(prev));
    match r {
        Ok(v) => Ok(v),
        Err(_) => Err(LAST_PANIC
            .with(|p| p.borrow_mut().take())
            .unwrap_or_else(|| "<panic>".to_string())),
    }
}

/// Reduce a panic message to a stable class: the source file's base name plus the first
/// words of the message, with numbers removed (so the class survives minimisation).
pub fn panic_class(msg: &str) -> String {
    let (text, loc) = match msg.rfind(" [") {
        Some(i) => (&msg[..i], msg[i + 2..].trim_end_matches(']')),
        None => (msg, ""),
    };
    let file = loc.rsplit('/').next().unwrap_or("").split(':').next().unwrap_or("");
    let mut words = String::new();
    for w in text.split_whitespace().take(6) {
        let w: String = w.chars().filter(|c| c.is_ascii_alphabetic() || *c == '_').collect();
        if !w.is_empty() {
            if !words.is_empty() {
                words.push('_');
            }
            words.push_str(&w);
        }
        if words.len() > 40 {
            break;
        }
    }
    format!("{file}:{words}")
}

// ---------------------------------------------------------------------------------------
// batch driver
//
// A batch is cut into chunks of consecutive runs. Every chunk is executed sequentially in a
// FRESH child process (`sim chunk ...`); the parent process only schedules children and merges
// their results and never executes code of the system under test. Consequences:
//   * run i is a pure function of (seed, layer, config, the runs before it in its chunk) — also
//     when the system under test keeps process-wide state — and independent of the number of
//     workers and of which worker ran what;
//   * "runs from..=i of this batch, in one fresh process" is therefore always an exact replay.

pub struct BatchCfg {
    pub seed: u64,
    pub config: u64,
    pub scale: u32,
    /// fixed number of runs (quick tier) ...
    pub runs: u64,
    /// ... or, when set, keep starting chunks until this much wall time has passed (thorough
    /// tier). A started chunk always finishes; the number of runs is reported.
    pub time_budget: Option<Duration>,
    pub workers: usize,
    pub samples: usize,
}

pub struct Failure<C> {
    pub run: u64,
    pub run_seed: u64,
    /// first run of the chunk (= of the process) in which it was observed
    pub chunk_start: u64,
    pub case: C,
    pub violation: Violation,
}

pub struct BatchResult<C> {
    pub runs: u64,
    pub steps: u64,
    pub stats: Stats,
    /// order-independent fingerprint of all (run index, run digest) pairs
    pub batch_digest: u64,
    /// first failing run per distinct violation key, lowest run index first
    pub failures: Vec<Failure<C>>,
    pub violating_runs: u64,
    pub harness_errors: Vec<String>,
    pub samples: Vec<(u64, C)>,
    pub wall: Duration,
    pub chunks: u64,
}

fn layer_tag(name: &str) -> u64 {
    let mut d = crate::rng::Digest::default();
    d.str(name);
    d.0
}

pub fn run_seed_for<L: Layer>(layer: &L, seed: u64, config: u64, run: u64) -> u64 {
    derive(seed, &[layer_tag(layer.name()), config, run])
}

/// A chunk that has not finished after this long is reported as a hang (liveness violation);
/// a normal chunk takes milliseconds. Real time is used for nothing else.
const HANG_AFTER_DEFAULT_SECS: u64 = 120;

fn hang_after() -> Duration {
    // overridable only to test the watchdog itself
    Duration::from_secs(
        std::env::var("VERIF_HANG_SECS")
            .ok()
            .and_then(|s| s.parse().ok())
            .unwrap_or(HANG_AFTER_DEFAULT_SECS),
    )
}

/// Execute runs `from..to` sequentially in THIS process (child side of the driver; also used
/// for exact prefix replays).
pub fn run_chunk<L: Layer>(layer: &L, cfg: &BatchCfg, from: u64, to: u64) -> BatchResult<L::Case> {
    run_list(layer, cfg, from, from..to)
}

/// Execute the given runs of a batch, in the given order, in THIS process.
pub fn run_list<L: Layer>(layer: &L, cfg: &BatchCfg, from: u64, runs: impl Iterator<Item = u64>) -> BatchResult<L::Case> {
    install_panic_hook();
    let t0 = Instant::now();
    let mut stats = Stats::new(layer.counter_names().len());
    let mut res = BatchResult {
        runs: 0,
        steps: 0,
        stats: Stats::default(),
        batch_digest: 0,
        failures: Vec::new(),
        violating_runs: 0,
        harness_errors: Vec::new(),
        samples: Vec::new(),
        wall: Duration::ZERO,
        chunks: 1,
    };
    for run in runs {
        let rs = run_seed_for(layer, cfg.seed, cfg.config, run);
        let case = layer.generate(rs, cfg.config, cfg.scale);
        let out = layer.execute(&case, &mut stats);
        res.runs += 1;
        res.steps += out.steps;
        res.batch_digest = res.batch_digest.wrapping_add(derive(out.digest, &[run]));
        if (run as usize) < cfg.samples {
            res.samples.push((run, case.clone()));
        }
        if let Some(e) = out.harness_error {
            if res.harness_errors.len() < 8 {
                res.harness_errors.push(format!("run {run}: {e}"));
            }
        }
        if let Some(v) = out.violation {
            res.violating_runs += 1;
            let key = v.key();
            if !res.failures.iter().any(|f| f.violation.key() == key) {
                res.failures.push(Failure {
                    run,
                    run_seed: rs,
                    chunk_start: from,
                    case,
                    violation: v,
                });
            }
        }
    }
    res.stats = stats;
    res.wall = t0.elapsed();
    res
}

// ---- wire format between child and parent (little-endian, length-prefixed) ----

struct W(Vec<u8>);
impl W {
    fn u64(&mut self, x: u64) {
        self.0.extend_from_slice(&x.to_le_bytes());
    }
    fn str(&mut self, s: &str) {
        self.u64(s.len() as u64);
        self.0.extend_from_slice(s.as_bytes());
    }
    fn set(&mut self, s: &HashSet<u64>) {
        self.u64(s.len() as u64);
        for x in s {
            self.u64(*x);
        }
    }
}
struct R<'a>(&'a [u8], usize);
impl R<'_> {
    fn u64(&mut self) -> Result<u64, String> {
        let b = self.0.get(self.1..self.1 + 8).ok_or("chunk result truncated")?;
        self.1 += 8;
        Ok(u64::from_le_bytes(b.try_into().unwrap()))
    }
    fn str(&mut self) -> Result<String, String> {
        let n = self.u64()? as usize;
        let b = self.0.get(self.1..self.1 + n).ok_or("chunk result truncated")?;
        self.1 += n;
        String::from_utf8(b.to_vec()).map_err(|e| e.to_string())
    }
    fn set(&mut self) -> Result<HashSet<u64>, String> {
        let n = self.u64()? as usize;
        let mut s = HashSet::with_capacity(n);
        for _ in 0..n {
            s.insert(self.u64()?);
        }
        Ok(s)
    }
}

const MAGIC: u64 = 0x3143_5356_4b4e_4843; // "CHNKVSC1"

pub fn encode_chunk<L: Layer>(layer: &L, r: &BatchResult<L::Case>) -> Vec<u8> {
    let mut w = W(Vec::new());
    w.u64(MAGIC);
    w.u64(r.runs);
    w.u64(r.steps);
    w.u64(r.batch_digest);
    w.u64(r.violating_runs);
    w.u64(r.stats.counters.len() as u64);
    for c in &r.stats.counters {
        w.u64(*c);
    }
    w.set(&r.stats.states);
    w.set(&r.stats.distinct);
    w.u64(r.stats.num_sets.len() as u64);
    for (k, v) in &r.stats.num_sets {
        w.str(k);
        w.set(v);
    }
    w.u64(r.stats.sets.len() as u64);
    for (k, v) in &r.stats.sets {
        w.str(k);
        w.u64(v.len() as u64);
        for s in v {
            w.str(s);
        }
    }
    w.u64(r.failures.len() as u64);
    for f in &r.failures {
        w.u64(f.run);
        w.u64(f.run_seed);
        w.u64(f.chunk_start);
        w.str(&f.violation.class);
        w.str(&f.violation.site);
        w.u64(f.violation.step as u64);
        w.str(&f.violation.detail);
        w.str(&layer.case_to_json(&f.case).to_compact());
    }
    w.u64(r.harness_errors.len() as u64);
    for e in &r.harness_errors {
        w.str(e);
    }
    w.u64(r.samples.len() as u64);
    for (run, c) in &r.samples {
        w.u64(*run);
        w.str(&layer.case_to_json(c).to_compact());
    }
    w.u64(MAGIC);
    w.0
}

/// Names of sets arrive as owned strings; the statistics use `&'static str` keys, so they are
/// interned (leaked once per distinct name — a handful per process).
fn intern(name: String) -> &'static str {
    static NAMES: Mutex<Vec<&'static str>> = Mutex::new(Vec::new());
    let mut g = NAMES.lock().unwrap();
    if let Some(n) = g.iter().find(|n| **n == name) {
        return n;
    }
    let leaked: &'static str = Box::leak(name.into_boxed_str());
    g.push(leaked);
    leaked
}

pub fn decode_chunk<L: Layer>(layer: &L, bytes: &[u8]) -> Result<BatchResult<L::Case>, String> {
    let mut r = R(bytes, 0);
    if r.u64()? != MAGIC {
        return Err("bad chunk header".into());
    }
    let runs = r.u64()?;
    let steps = r.u64()?;
    let batch_digest = r.u64()?;
    let violating_runs = r.u64()?;
    let mut stats = Stats::default();
    for _ in 0..r.u64()? {
        stats.counters.push(r.u64()?);
    }
    stats.states = r.set()?;
    stats.distinct = r.set()?;
    for _ in 0..r.u64()? {
        let k = intern(r.str()?);
        let v = r.set()?;
        stats.num_sets.insert(k, v);
    }
    for _ in 0..r.u64()? {
        let k = intern(r.str()?);
        let mut v = BTreeSet::new();
        for _ in 0..r.u64()? {
            v.insert(r.str()?);
        }
        stats.sets.insert(k, v);
    }
    let mut failures = Vec::new();
    for _ in 0..r.u64()? {
        let run = r.u64()?;
        let run_seed = r.u64()?;
        let chunk_start = r.u64()?;
        let class = r.str()?;
        let site = r.str()?;
        let step = r.u64()? as usize;
        let detail = r.str()?;
        let case = layer.case_from_json(&crate::json::parse(&r.str()?)?)?;
        failures.push(Failure {
            run,
            run_seed,
            chunk_start,
            case,
            violation: Violation { class, site, step, detail },
        });
    }
    let mut harness_errors = Vec::new();
    for _ in 0..r.u64()? {
        harness_errors.push(r.str()?);
    }
    let mut samples = Vec::new();
    for _ in 0..r.u64()? {
        let run = r.u64()?;
        samples.push((run, layer.case_from_json(&crate::json::parse(&r.str()?)?)?));
    }
    if r.u64()? != MAGIC {
        return Err("bad chunk trailer".into());
    }
    Ok(BatchResult {
        runs,
        steps,
        stats,
        batch_digest,
        failures,
        violating_runs,
        harness_errors,
        samples,
        wall: Duration::ZERO,
        chunks: 1,
    })
}

/// Parent side: schedule chunks on `cfg.workers` threads, each chunk in a fresh child process.
pub fn run_batch<L: Layer>(layer: &L, cfg: &BatchCfg) -> BatchResult<L::Case> {
    let t0 = Instant::now();
    let exe = std::env::current_exe().expect("current_exe");
    let chunk = layer.chunk_runs();
    let total_chunks = cfg.runs.div_ceil(chunk);
    let next_chunk = AtomicU64::new(0);
    let merged = Mutex::new(BatchResult::<L::Case> {
        runs: 0,
        steps: 0,
        stats: Stats::new(layer.counter_names().len()),
        batch_digest: 0,
        failures: Vec::new(),
        violating_runs: 0,
        harness_errors: Vec::new(),
        samples: Vec::new(),
        wall: Duration::ZERO,
        chunks: 0,
    });
    let stop = AtomicBool::new(false);
    std::thread::scope(|scope| {
        for _ in 0..cfg.workers.max(1) {
            scope.spawn(|| loop {
                if stop.load(Ordering::Relaxed) {
                    break;
                }
                let c = next_chunk.fetch_add(1, Ordering::Relaxed);
                match cfg.time_budget {
                    None if c >= total_chunks => break,
                    // the fixed run count is a floor; beyond it, stop on time
                    Some(b) if c >= total_chunks && t0.elapsed() >= b => break,
                    _ => {}
                }
                let from = c * chunk;
                let to = if cfg.time_budget.is_none() { (from + chunk).min(cfg.runs) } else { from + chunk };
                let mut cmd = std::process::Command::new(&exe);
                cmd.args(["chunk", "--layer", layer.name(), "--config"])
                    .arg(cfg.config.to_string())
                    .args(["--seed", &cfg.seed.to_string(), "--scale", &cfg.scale.to_string()])
                    .args(["--from", &from.to_string(), "--to", &to.to_string()])
                    .args(["--samples", &cfg.samples.to_string()])
                    .stdin(std::process::Stdio::null())
                    .stdout(std::process::Stdio::piped())
                    .stderr(std::process::Stdio::piped());
                let started = Instant::now();
                let outcome: Result<BatchResult<L::Case>, Failure<L::Case>> = (|| {
                    let hang = |what: String| Failure {
                        run: from,
                        run_seed: run_seed_for(layer, cfg.seed, cfg.config, from),
                        chunk_start: from,
                        case: layer.generate(run_seed_for(layer, cfg.seed, cfg.config, from), cfg.config, cfg.scale),
                        violation: Violation {
                            class: "hang-or-crash".into(),
                            site: "chunk".into(),
                            step: 0,
                            detail: what,
                        },
                    };
                    let mut child = cmd.spawn().map_err(|e| hang(format!("cannot spawn chunk process: {e}")))?;
                    // read stdout on this thread; a watchdog thread kills a child that overstays
                    let mut out = child.stdout.take().unwrap();
                    let mut err = child.stderr.take().unwrap();
                    let killed = AtomicBool::new(false);
                    let finished = AtomicBool::new(false);
                    let id = child.id();
                    let mut bytes = Vec::new();
                    let mut errtext = String::new();
                    std::thread::scope(|s2| {
                        s2.spawn(|| {
                            while !finished.load(Ordering::Relaxed) {
                                if started.elapsed() > hang_after() {
                                    killed.store(true, Ordering::Relaxed);
                                    // SIGKILL through the shell-independent std API is on Child only;
                                    // use the pid with `kill` semantics via libc-free command
                                    let _ = std::process::Command::new("kill").args(["-9", &id.to_string()]).status();
                                    break;
                                }
                                std::thread::sleep(Duration::from_millis(50));
                            }
                        });
                        use std::io::Read;
                        let _ = out.read_to_end(&mut bytes);
                        let _ = err.read_to_string(&mut errtext);
                        finished.store(true, Ordering::Relaxed);
                    });
                    let status = child.wait().map_err(|e| hang(format!("wait failed: {e}")))?;
                    if killed.load(Ordering::Relaxed) {
                        return Err(hang(format!(
                            "runs {from}..{to} did not finish within {}s in a fresh process",
                            hang_after().as_secs()
                        )));
                    }
                    if !status.success() {
                        return Err(hang(format!(
                            "the process executing runs {from}..{to} died ({status}): {}",
                            errtext.chars().rev().take(600).collect::<String>().chars().rev().collect::<String>()
                        )));
                    }
                    decode_chunk(layer, &bytes).map_err(|e| hang(format!("unreadable chunk result for runs {from}..{to}: {e}")))
                })();
                let mut m = merged.lock().unwrap();
                m.chunks += 1;
                match outcome {
                    Ok(r) => {
                        m.runs += r.runs;
                        m.steps += r.steps;
                        m.batch_digest = m.batch_digest.wrapping_add(r.batch_digest);
                        m.violating_runs += r.violating_runs;
                        m.stats.merge(r.stats);
                        m.harness_errors.extend(r.harness_errors);
                        m.samples.extend(r.samples);
                        for f in r.failures {
                            let key = f.violation.key();
                            match m.failures.iter().position(|g| g.violation.key() == key) {
                                Some(i) if m.failures[i].run <= f.run => {}
                                Some(i) => m.failures[i] = f,
                                None => m.failures.push(f),
                            }
                        }
                    }
                    Err(f) => {
                        // a dead or hung process ends the batch: the remaining chunks would most
                        // likely hang too, and one exact replay is enough
                        stop.store(true, Ordering::Relaxed);
                        m.violating_runs += 1;
                        let key = f.violation.key();
                        match m.failures.iter().position(|g| g.violation.key() == key) {
                            Some(i) if m.failures[i].run <= f.run => {}
                            Some(i) => m.failures[i] = f,
                            None => m.failures.push(f),
                        }
                    }
                }
            });
        }
    });
    let mut m = merged.into_inner().unwrap();
    m.failures.sort_by_key(|f| f.run);
    m.samples.sort_by_key(|s| s.0);
    m.harness_errors.sort();
    m.wall = t0.elapsed();
    m
}

// ---------------------------------------------------------------------------------------
// minimiser

/// Greedy fixpoint over the layer's shrink candidates while the same violation key persists.
pub fn minimise<L: Layer>(layer: &L, case: L::Case, key: &str) -> (L::Case, Violation, u64) {
    let mut scratch = Stats::new(layer.counter_names().len());
    let mut best = case;
    let out = layer.execute(&best, &mut scratch);
    let mut best_v = out.violation.expect("minimise: case does not fail");
    let mut best_digest = out.digest;
    let mut evals = 0u64;
    let deadline = Instant::now() + Duration::from_secs(60);
    'outer: loop {
        let cands = layer.shrink(&best);
        for cand in cands {
            if Instant::now() > deadline || evals > 200_000 {
                break 'outer;
            }
            if layer.case_size(&cand) > layer.case_size(&best) {
                continue;
            }
            evals += 1;
            let out = layer.execute(&cand, &mut scratch);
            if let Some(v) = out.violation {
                if v.key() == key {
                    let smaller = layer.case_size(&cand) < layer.case_size(&best);
                    let changed = layer.case_to_json(&cand) != layer.case_to_json(&best);
                    if smaller || changed {
                        // accept only strict progress in (size, then any canonicalising change
                        // that the layer proposes — layers never propose cycles)
                        best = cand;
                        best_v = v;
                        best_digest = out.digest;
                        continue 'outer;
                    }
                }
            }
        }
        break;
    }
    (best, best_v, best_digest)
}

// ---------------------------------------------------------------------------------------
// replay files

pub fn replay_dir() -> String {
    std::env::var("VERIF_REPLAY_DIR").unwrap_or_else(|_| "/verif/replays".to_string())
}

pub fn build_name() -> &'static str {
    if cfg!(debug_assertions) {
        if cfg!(feature = "all-nodes-with-ranges") {
            "dbg+allranges"
        } else {
            "dbg"
        }
    } else if cfg!(feature = "all-nodes-with-ranges") {
        "rel+allranges"
    } else {
        "rel"
    }
}

#[allow(clippy::too_many_arguments)]
pub fn write_replay<L: Layer>(
    layer: &L,
    cfg: &BatchCfg,
    run: u64,
    run_seed: u64,
    case: &L::Case,
    v: &Violation,
    digest: u64,
    tag: &str,
) -> String {
    let dir = replay_dir();
    let _ = std::fs::create_dir_all(&dir);
    let path = format!(
        "{}/{}-{}-{}-s{}-c{}-r{}{}.json",
        dir,
        layer.property(),
        layer.name(),
        build_name(),
        cfg.seed,
        cfg.config,
        run,
        if tag.is_empty() { String::new() } else { format!("-{tag}") }
    );
    let j = obj(vec![
        ("property", layer.property().into()),
        ("layer", layer.name().into()),
        ("build", build_name().into()),
        ("seed", cfg.seed.into()),
        ("config", cfg.config.into()),
        ("scale", cfg.scale.into()),
        ("run", run.into()),
        ("run_seed", J::Str(format!("{run_seed}"))),
        ("case", layer.case_to_json(case)),
        ("expected", v.to_json()),
        ("log_digest", J::Str(format!("{digest:016x}"))),
    ]);
    std::fs::write(&path, j.to_pretty()).expect("cannot write replay file");
    path
}

/// Replay spec for a failure that needs the earlier runs of its process (process-wide state in
/// the system under test) or that killed/hung its process: "runs from..to of this batch, in
/// order, in one fresh process" — by construction exactly what the batch executed.
pub fn write_chunk_prefix_replay<L: Layer>(layer: &L, cfg: &BatchCfg, from: u64, to: u64, v: &Violation) -> String {
    let dir = replay_dir();
    let _ = std::fs::create_dir_all(&dir);
    let path = format!(
        "{}/{}-{}-{}-s{}-c{}-r{}-prefix.json",
        dir,
        layer.property(),
        layer.name(),
        build_name(),
        cfg.seed,
        cfg.config,
        to.saturating_sub(1)
    );
    let mut e = v.to_json();
    e.set("key", v.key().into());
    let j = obj(vec![
        ("property", layer.property().into()),
        ("layer", layer.name().into()),
        ("build", build_name().into()),
        ("kind", "chunk-prefix".into()),
        ("seed", cfg.seed.into()),
        ("config", cfg.config.into()),
        ("scale", cfg.scale.into()),
        ("from", from.into()),
        ("to", to.into()),
        ("expected", e),
    ]);
    std::fs::write(&path, j.to_pretty()).expect("cannot write replay file");
    path
}

/// Like a chunk prefix, but with an explicit (minimised) list of the runs to execute in order.
pub fn write_run_list_replay<L: Layer>(layer: &L, cfg: &BatchCfg, runs: &[u64], v: &Violation, tag: &str) -> String {
    let dir = replay_dir();
    let _ = std::fs::create_dir_all(&dir);
    let path = format!(
        "{}/{}-{}-{}-s{}-c{}-r{}-runs{}.json",
        dir,
        layer.property(),
        layer.name(),
        build_name(),
        cfg.seed,
        cfg.config,
        runs.last().copied().unwrap_or(0),
        tag
    );
    let mut e = v.to_json();
    e.set("key", v.key().into());
    let j = obj(vec![
        ("property", layer.property().into()),
        ("layer", layer.name().into()),
        ("build", build_name().into()),
        ("kind", "run-list".into()),
        ("seed", cfg.seed.into()),
        ("config", cfg.config.into()),
        ("scale", cfg.scale.into()),
        ("runs", J::Arr(runs.iter().map(|r| J::Int(*r as i64)).collect())),
        (
            "cases",
            J::Arr(
                runs.iter()
                    .map(|r| layer.case_to_json(&layer.generate(run_seed_for(layer, cfg.seed, cfg.config, *r), cfg.config, cfg.scale)))
                    .take(8)
                    .collect(),
            ),
        ),
        ("expected", e),
    ]);
    std::fs::write(&path, j.to_pretty()).expect("cannot write replay file");
    path
}

pub struct ReplayResult {
    pub reproduced: bool,
    pub violation: Option<Violation>,
    pub expected: Violation,
    pub digest_matches: bool,
}

pub fn replay<L: Layer>(layer: &L, j: &J) -> Result<ReplayResult, String> {
    install_panic_hook();
    let case = layer.case_from_json(j.get("case").ok_or("replay: no case")?)?;
    let e = j.get("expected").ok_or("replay: no expected")?;
    let expected = Violation {
        class: e.get("class").and_then(J::as_str).unwrap_or("").to_string(),
        site: e.get("site").and_then(J::as_str).unwrap_or("").to_string(),
        step: e.get("step").and_then(J::as_u64).unwrap_or(0) as usize,
        detail: e.get("detail").and_then(J::as_str).unwrap_or("").to_string(),
    };
    let want_digest = j.get("log_digest").and_then(J::as_str).unwrap_or("").to_string();
    let mut st = Stats::new(layer.counter_names().len());
    let out = layer.execute(&case, &mut st);
    if let Some(h) = out.harness_error {
        return Err(format!("harness error during replay: {h}"));
    }
    let reproduced = match &out.violation {
        Some(v) => v.key() == expected.key() && v.step == expected.step,
        None => false,
    };
    Ok(ReplayResult {
        reproduced,
        digest_matches: format!("{:016x}", out.digest) == want_digest,
        violation: out.violation,
        expected,
    })
}

// ---------------------------------------------------------------------------------------
// generic list shrinking helper (ddmin-style chunk removal)

/// Candidates obtained by deleting chunks of `xs`: halves, quarters, ..., single elements.
pub fn chunk_removals<T: Clone>(xs: &[T]) -> Vec<Vec<T>> {
    let n = xs.len();
    let mut out = Vec::new();
    if n == 0 {
        return out;
    }
    let mut size = n;
    loop {
        let mut start = 0;
        while start < n {
            let end = (start + size).min(n);
            let mut v = Vec::with_capacity(n - (end - start));
            v.extend_from_slice(&xs[..start]);
            v.extend_from_slice(&xs[end..]);
            out.push(v);
            start = end;
        }
        if size == 1 {
            break;
        }
        size = size.div_ceil(2);
        if out.len() > 4096 || out.len() * n > 30_000_000 {
            break;
        }
    }
    out
}
