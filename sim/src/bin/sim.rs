//! Command-line driver of the simulator.
//!
//!   sim run    --layer <name> --config <n> --seed <n> --runs <n> [--secs <n>] [--scale <n>]
//!              [--workers <n>] [--samples <n>] --out <partial.json>
//!   sim replay <replay.json>
//!   sim digest --layer <name> --config <n> --seed <n> --runs <n> [--workers <n>]
//!
//! Exit codes: 0 nothing found / 1 a violation was found (run: `FAILURE` lines, replay:
//! `VIOLATION` line) / 2 harness error.

use std::collections::BTreeMap;
use std::time::Duration;
use verif_sim::harness::{self, BatchCfg, Layer};
use verif_sim::json::{self, obj, J};

fn arg_map(args: &[String]) -> BTreeMap<String, String> {
    let mut m = BTreeMap::new();
    let mut i = 0;
    while i < args.len() {
        if let Some(k) = args[i].strip_prefix("--") {
            let v = args.get(i + 1).cloned().unwrap_or_default();
            m.insert(k.to_string(), v);
            i += 2;
        } else {
            m.insert(format!("_{}", m.len()), args[i].clone());
            i += 1;
        }
    }
    m
}

fn num(m: &BTreeMap<String, String>, k: &str, default: u64) -> u64 {
    match m.get(k) {
        Some(v) => v.parse().unwrap_or_else(|_| {
            eprintln!("bad value for --{k}: {v}");
            std::process::exit(2)
        }),
        None => default,
    }
}

fn with_layer<R>(name: &str, f: impl LayerFn<R>) -> R {
    match name {
        "c15-hist" | "hist" => f.call(verif_sim::c15::HistLayer),
        "c13-cursor" | "cursor" => f.call(verif_sim::c13a::CursorLayer),
        "c13-fold" | "fold" => f.call(verif_sim::c13b::FoldLayer),
        other => {
            eprintln!("unknown layer {other}");
            std::process::exit(2)
        }
    }
}

trait LayerFn<R> {
    fn call<L: Layer>(self, layer: L) -> R;
}

struct RunCmd {
    m: BTreeMap<String, String>,
}

impl LayerFn<i32> for RunCmd {
    fn call<L: Layer>(self, layer: L) -> i32 {
        let m = &self.m;
        let cfg = BatchCfg {
            seed: num(m, "seed", 1),
            config: num(m, "config", 0),
            scale: num(m, "scale", 1) as u32,
            runs: num(m, "runs", 1000),
            time_budget: m.get("secs").map(|s| Duration::from_secs_f64(s.parse().expect("--secs"))),
            workers: num(m, "workers", 16) as usize,
            samples: num(m, "samples", 3) as usize,
        };
        println!(
            "SEED {} layer={} config={} build={} runs>={} workers={}",
            cfg.seed,
            layer.name(),
            cfg.config,
            harness::build_name(),
            cfg.runs,
            cfg.workers
        );
        let res = harness::run_batch(&layer, &cfg);
        let names = layer.counter_names();
        let mut failures = Vec::new();
        for f in &res.failures {
            let key = f.violation.key();
            let orig_size = layer.case_size(&f.case);
            let (min_case, v, digest) = harness::minimise(&layer, f.case.clone(), &key);
            let path = harness::write_replay(&layer, &cfg, f.run, f.run_seed, &min_case, &v, digest, "");
            println!(
                "FAILURE property={} key={} run={} replay={}",
                layer.property(),
                key,
                f.run,
                path
            );
            failures.push(obj(vec![
                ("key", key.as_str().into()),
                ("class", v.class.as_str().into()),
                ("site", v.site.as_str().into()),
                ("step", v.step.into()),
                ("detail", v.detail.as_str().into()),
                ("run", f.run.into()),
                ("replay", path.as_str().into()),
                ("original_size", orig_size.into()),
                ("minimised_size", layer.case_size(&min_case).into()),
                ("minimised_case", layer.case_to_json(&min_case)),
            ]));
        }
        let mut zero_probes = Vec::new();
        for p in layer.required_probes(cfg.config) {
            if res.stats.counters[p] == 0 {
                zero_probes.push(J::Str(names[p].to_string()));
            }
        }
        let counters = J::Obj(
            names
                .iter()
                .enumerate()
                .map(|(i, n)| (n.to_string(), J::Int(res.stats.counters[i] as i64)))
                .collect(),
        );
        let sets = J::Obj(
            res.stats
                .sets
                .iter()
                .map(|(k, v)| (k.to_string(), J::Arr(v.iter().map(|s| J::Str(s.clone())).collect())))
                .collect(),
        );
        let num_sets = J::Obj(
            res.stats
                .num_sets
                .iter()
                .map(|(k, v)| (k.to_string(), J::Int(v.len() as i64)))
                .collect(),
        );
        let out = obj(vec![
            ("property", layer.property().into()),
            ("layer", layer.name().into()),
            ("build", harness::build_name().into()),
            ("config", cfg.config.into()),
            ("seed", cfg.seed.into()),
            ("scale", cfg.scale.into()),
            ("workers", cfg.workers.into()),
            ("runs", res.runs.into()),
            ("steps", res.steps.into()),
            ("wall_s", J::Float(res.wall.as_secs_f64())),
            ("batch_digest", J::Str(format!("{:016x}", res.batch_digest))),
            ("violating_runs", res.violating_runs.into()),
            ("abstract_states", res.stats.states.len().into()),
            ("distinct_nontrivial", res.stats.distinct.len().into()),
            ("counters", counters),
            ("sets", sets),
            ("set_sizes", num_sets),
            ("zero_probes", J::Arr(zero_probes.clone())),
            ("failures", J::Arr(failures)),
            (
                "harness_errors",
                J::Arr(res.harness_errors.iter().map(|s| J::Str(s.clone())).collect()),
            ),
            (
                "samples",
                J::Arr(
                    res.samples
                        .iter()
                        .map(|(run, c)| obj(vec![("run", (*run).into()), ("case", layer.case_to_json(c))]))
                        .collect(),
                ),
            ),
        ]);
        if let Some(path) = m.get("out") {
            std::fs::write(path, out.to_pretty()).expect("cannot write --out file");
        }
        println!(
            "DONE layer={} config={} build={} runs={} steps={} wall={:.2}s digest={:016x} violating_runs={} distinct_failures={}",
            layer.name(),
            cfg.config,
            harness::build_name(),
            res.runs,
            res.steps,
            res.wall.as_secs_f64(),
            res.batch_digest,
            res.violating_runs,
            res.failures.len()
        );
        if !res.harness_errors.is_empty() {
            for e in &res.harness_errors {
                eprintln!("HARNESS-ERROR {e}");
            }
            return 2;
        }
        if let Some(e) = layer.self_check(&res.stats) {
            eprintln!("HARNESS-ERROR {e}");
            return 2;
        }
        if !res.failures.is_empty() {
            return 1;
        }
        if !zero_probes.is_empty() && num(m, "require-probes", 1) == 1 {
            eprintln!("HARNESS-ERROR probes stuck at zero: {}", J::Arr(zero_probes).to_compact());
            return 2;
        }
        0
    }
}

struct ReplayCmd {
    j: J,
    path: String,
}

impl LayerFn<i32> for ReplayCmd {
    fn call<L: Layer>(self, layer: L) -> i32 {
        match harness::replay(&layer, &self.j) {
            Err(e) => {
                eprintln!("HARNESS-ERROR {e}");
                2
            }
            Ok(r) => {
                if r.reproduced {
                    let v = r.violation.unwrap();
                    println!(
                        "REPRODUCED key={} step={} digest_matches={} detail={}",
                        v.key(),
                        v.step,
                        r.digest_matches,
                        v.detail
                    );
                    println!("VIOLATION property={} replay={}", layer.property(), self.path);
                    1
                } else {
                    match r.violation {
                        Some(v) => {
                            println!(
                                "DIFFERENT expected key={} step={}, got key={} step={} detail={}",
                                r.expected.key(),
                                r.expected.step,
                                v.key(),
                                v.step,
                                v.detail
                            );
                            println!("VIOLATION property={} replay={}", layer.property(), self.path);
                            1
                        }
                        None => {
                            println!("NOT-REPRODUCED expected key={} (build {})", r.expected.key(), harness::build_name());
                            0
                        }
                    }
                }
            }
        }
    }
}

struct DigestCmd {
    m: BTreeMap<String, String>,
}

impl LayerFn<i32> for DigestCmd {
    fn call<L: Layer>(self, layer: L) -> i32 {
        let m = &self.m;
        let cfg = BatchCfg {
            seed: num(m, "seed", 1),
            config: num(m, "config", 0),
            scale: num(m, "scale", 1) as u32,
            runs: num(m, "runs", 1000),
            time_budget: None,
            workers: num(m, "workers", 16) as usize,
            samples: 0,
        };
        let res = harness::run_batch(&layer, &cfg);
        // counters are part of the fingerprint: they must not depend on the worker count either
        let mut d = verif_sim::rng::Digest::default();
        for c in &res.stats.counters {
            d.word(*c);
        }
        d.word(res.stats.states.len() as u64);
        d.word(res.stats.distinct.len() as u64);
        println!(
            "DIGEST layer={} config={} seed={} runs={} build={} batch={:016x} stats={:016x} violating={}",
            layer.name(),
            cfg.config,
            cfg.seed,
            res.runs,
            harness::build_name(),
            res.batch_digest,
            d.0,
            res.violating_runs
        );
        0
    }
}

fn main() {
    let args: Vec<String> = std::env::args().skip(1).collect();
    if args.is_empty() {
        eprintln!("usage: sim run|replay|digest ...");
        std::process::exit(2);
    }
    let code = match args[0].as_str() {
        "run" => {
            let m = arg_map(&args[1..]);
            let layer = m.get("layer").cloned().unwrap_or_default();
            with_layer(&layer, RunCmd { m })
        }
        "digest" => {
            let m = arg_map(&args[1..]);
            let layer = m.get("layer").cloned().unwrap_or_default();
            with_layer(&layer, DigestCmd { m })
        }
        "replay" => {
            let path = args.get(1).cloned().unwrap_or_default();
            let src = std::fs::read_to_string(&path).unwrap_or_else(|e| {
                eprintln!("HARNESS-ERROR cannot read {path}: {e}");
                std::process::exit(2)
            });
            let j = json::parse(&src).unwrap_or_else(|e| {
                eprintln!("HARNESS-ERROR cannot parse {path}: {e}");
                std::process::exit(2)
            });
            let prop = j.get("property").and_then(J::as_str).unwrap_or("").to_lowercase();
            let layer = format!("{}-{}", prop, j.get("layer").and_then(J::as_str).unwrap_or(""));
            with_layer(&layer, ReplayCmd { j, path })
        }
        other => {
            eprintln!("unknown command {other}");
            2
        }
    };
    std::process::exit(code);
}
