//! Command-line driver of the simulator.
//!
//!   sim run      --layer <name> --config <n> --seed <n> --runs <n> [--secs <n>] [--scale <n>]
//!                [--workers <n>] [--samples <n>] --out <partial.json>
//!   sim replay   <replay.json>
//!   sim digest   --layer <name> --config <n> --seed <n> --runs <n> [--workers <n>]
//!   sim chunk    ... --from <a> --to <b>      (internal: one chunk of a batch, result on stdout)
//!   sim minimise <replay.json> --out <file>   (internal: minimise in a fresh process)
//!
//! `run` and `digest` never execute code of the system under test themselves: every chunk of
//! runs, every minimisation and every replay check happens in a fresh child process.
//!
//! Exit codes: 0 nothing found / 1 a violation was found (run: `FAILURE` lines, replay:
//! `VIOLATION` line) / 2 harness error.

use std::collections::BTreeMap;
use std::io::Write;
use std::time::Duration;
use verif_sim::harness::{self, BatchCfg, Layer};
use verif_sim::json::{self, obj, J};

fn arg_map(args: &[String]) -> BTreeMap<String, String> {
    let mut m = BTreeMap::new();
    let mut i = 0;
    while i < args.len() {
        if let Some(k) = args[i].strip_prefix("--") {
            let v = args.get(i + 1).cloned().unwrap_or_default();
            m.insert(k.to_string(), v);
            i += 2;
        } else {
            m.insert(format!("_{}", m.len()), args[i].clone());
            i += 1;
        }
    }
    m
}

fn num(m: &BTreeMap<String, String>, k: &str, default: u64) -> u64 {
    match m.get(k) {
        Some(v) => v.parse().unwrap_or_else(|_| {
            eprintln!("bad value for --{k}: {v}");
            std::process::exit(2)
        }),
        None => default,
    }
}

fn with_layer<R>(name: &str, f: impl LayerFn<R>) -> R {
    match name {
        "c15-hist" | "hist" => f.call(verif_sim::c15::HistLayer),
        "c13-cursor" | "cursor" => f.call(verif_sim::c13a::CursorLayer),
        "c13-fold" | "fold" => f.call(verif_sim::c13b::FoldLayer),
        other => {
            eprintln!("unknown layer {other}");
            std::process::exit(2)
        }
    }
}

trait LayerFn<R> {
    fn call<L: Layer>(self, layer: L) -> R;
}

fn cfg_from(m: &BTreeMap<String, String>) -> BatchCfg {
    BatchCfg {
        seed: num(m, "seed", 1),
        config: num(m, "config", 0),
        scale: num(m, "scale", 1) as u32,
        runs: num(m, "runs", 1000),
        time_budget: m.get("secs").map(|s| Duration::from_secs_f64(s.parse().expect("--secs"))),
        workers: num(m, "workers", 16) as usize,
        samples: num(m, "samples", 3) as usize,
    }
}

/// Re-execute a replay file in a fresh process; true iff it reports `REPRODUCED`.
fn fresh_replay_reproduces(path: &str) -> bool {
    let exe = std::env::current_exe().expect("current_exe");
    match std::process::Command::new(exe).args(["replay", path]).output() {
        Ok(o) => String::from_utf8_lossy(&o.stdout).lines().any(|l| l.starts_with("REPRODUCED")),
        Err(_) => false,
    }
}

struct RunCmd {
    m: BTreeMap<String, String>,
}

impl LayerFn<i32> for RunCmd {
    fn call<L: Layer>(self, layer: L) -> i32 {
        let m = &self.m;
        let cfg = cfg_from(m);
        println!(
            "SEED {} layer={} config={} build={} runs>={} workers={} chunk={}",
            cfg.seed,
            layer.name(),
            cfg.config,
            harness::build_name(),
            cfg.runs,
            cfg.workers,
            layer.chunk_runs()
        );
        let res = harness::run_batch(&layer, &cfg);
        let names = layer.counter_names();
        let exe = std::env::current_exe().expect("current_exe");
        let mut failures = Vec::new();
        for f in &res.failures {
            let key = f.violation.key();
            // 1. does the failing case alone fail in a fresh process?
            let orig = harness::write_replay(&layer, &cfg, f.run, f.run_seed, &f.case, &f.violation, 0, "orig");
            let (path, stability) = if f.violation.class != "hang-or-crash" && fresh_replay_reproduces(&orig) {
                // 2. minimise in a fresh process, and accept the result only if it replays
                let min = orig.replace("-orig.json", ".json");
                let _ = std::process::Command::new(&exe).args(["minimise", &orig, "--out", &min]).output();
                if std::path::Path::new(&min).exists() && fresh_replay_reproduces(&min) {
                    let _ = std::fs::remove_file(&orig);
                    (min, "minimised case reproduces in a fresh process")
                } else {
                    (orig, "only the unminimised case reproduces in a fresh process (state leaks between executions of one process)")
                }
            } else {
                // 3. the exact prefix of its process always reproduces
                let _ = std::fs::remove_file(&orig);
                let to = if f.violation.class == "hang-or-crash" { f.chunk_start + layer.chunk_runs() } else { f.run + 1 };
                let p = harness::write_chunk_prefix_replay(&layer, &cfg, f.chunk_start, to, &f.violation);
                if f.violation.class == "hang-or-crash" {
                    (p, "the process executing this chunk died or hung: exact chunk replay")
                } else {
                    // minimise the prefix: which of the earlier runs are needed? (ddmin over the
                    // run list, every candidate in a fresh process, the failing run always last)
                    let mut runs: Vec<u64> = (f.chunk_start..=f.run).collect();
                    let mut tests = 0;
                    let mut size = (runs.len() - 1).max(1);
                    while size >= 1 && tests < 400 && runs.len() > 1 {
                        let mut i = 0;
                        let mut progressed = false;
                        while i + 1 < runs.len() && tests < 400 {
                            let end = (i + size).min(runs.len() - 1);
                            let mut cand: Vec<u64> = runs[..i].to_vec();
                            cand.extend_from_slice(&runs[end..]);
                            let tmp = harness::write_run_list_replay(&layer, &cfg, &cand, &f.violation, "-tmp");
                            tests += 1;
                            if fresh_replay_reproduces(&tmp) {
                                runs = cand;
                                progressed = true;
                            } else {
                                i = end;
                            }
                            let _ = std::fs::remove_file(&tmp);
                        }
                        if size == 1 && !progressed {
                            break;
                        }
                        size = if size == 1 { 1 } else { size / 2 };
                        if size == 1 && !progressed && runs.len() <= 2 {
                            break;
                        }
                    }
                    let listed = harness::write_run_list_replay(&layer, &cfg, &runs, &f.violation, "");
                    if runs.len() < (f.run - f.chunk_start + 1) as usize && fresh_replay_reproduces(&listed) {
                        let _ = std::fs::remove_file(&p);
                        (listed, "needs earlier runs of its process (process-wide state in the system under test): minimised list of runs, replayed in order in one fresh process")
                    } else {
                        let _ = std::fs::remove_file(&listed);
                        (p, "needs the earlier runs of its process (process-wide state in the system under test): exact prefix replay")
                    }
                }
            };
            println!(
                "FAILURE property={} key={} run={} replay={} stability=\"{}\"",
                layer.property(),
                key,
                f.run,
                path,
                stability
            );
            let rj = std::fs::read_to_string(&path).ok().and_then(|s| json::parse(&s).ok());
            let exp = rj.as_ref().and_then(|j| j.get("expected")).cloned().unwrap_or(f.violation.to_json());
            failures.push(obj(vec![
                ("key", key.as_str().into()),
                ("class", f.violation.class.as_str().into()),
                ("site", f.violation.site.as_str().into()),
                ("detail", exp.get("detail").and_then(J::as_str).unwrap_or(&f.violation.detail).into()),
                ("run", f.run.into()),
                ("replay", path.as_str().into()),
                ("stability", stability.into()),
                ("original_size", layer.case_size(&f.case).into()),
                (
                    "replay_case",
                    rj.as_ref().and_then(|j| j.get("case")).cloned().unwrap_or(J::Null),
                ),
            ]));
        }
        let mut zero_probes = Vec::new();
        for p in layer.required_probes(cfg.config) {
            if res.stats.counters[p] == 0 {
                zero_probes.push(J::Str(names[p].to_string()));
            }
        }
        let counters = J::Obj(
            names
                .iter()
                .enumerate()
                .map(|(i, n)| (n.to_string(), J::Int(res.stats.counters[i] as i64)))
                .collect(),
        );
        let sets = J::Obj(
            res.stats
                .sets
                .iter()
                .map(|(k, v)| (k.to_string(), J::Arr(v.iter().map(|s| J::Str(s.clone())).collect())))
                .collect(),
        );
        let num_sets = J::Obj(
            res.stats
                .num_sets
                .iter()
                .map(|(k, v)| (k.to_string(), J::Int(v.len() as i64)))
                .collect(),
        );
        let out = obj(vec![
            ("property", layer.property().into()),
            ("layer", layer.name().into()),
            ("build", harness::build_name().into()),
            ("config", cfg.config.into()),
            ("seed", cfg.seed.into()),
            ("scale", cfg.scale.into()),
            ("workers", cfg.workers.into()),
            ("runs", res.runs.into()),
            ("chunks", res.chunks.into()),
            ("chunk_runs", layer.chunk_runs().into()),
            ("steps", res.steps.into()),
            ("wall_s", J::Float(res.wall.as_secs_f64())),
            ("batch_digest", J::Str(format!("{:016x}", res.batch_digest))),
            ("violating_runs", res.violating_runs.into()),
            ("abstract_states", res.stats.states.len().into()),
            ("distinct_nontrivial", res.stats.distinct.len().into()),
            ("counters", counters),
            ("sets", sets),
            ("set_sizes", num_sets),
            ("zero_probes", J::Arr(zero_probes.clone())),
            ("failures", J::Arr(failures)),
            (
                "harness_errors",
                J::Arr(res.harness_errors.iter().map(|s| J::Str(s.clone())).collect()),
            ),
            (
                "samples",
                J::Arr(
                    res.samples
                        .iter()
                        .map(|(run, c)| obj(vec![("run", (*run).into()), ("case", layer.case_to_json(c))]))
                        .collect(),
                ),
            ),
        ]);
        if let Some(path) = m.get("out") {
            std::fs::write(path, out.to_pretty()).expect("cannot write --out file");
        }
        println!(
            "DONE layer={} config={} build={} runs={} steps={} wall={:.2}s digest={:016x} violating_runs={} distinct_failures={}",
            layer.name(),
            cfg.config,
            harness::build_name(),
            res.runs,
            res.steps,
            res.wall.as_secs_f64(),
            res.batch_digest,
            res.violating_runs,
            res.failures.len()
        );
        if !res.harness_errors.is_empty() {
            for e in &res.harness_errors {
                eprintln!("HARNESS-ERROR {e}");
            }
            return 2;
        }
        if let Some(e) = layer.self_check(&res.stats) {
            eprintln!("HARNESS-ERROR {e}");
            return 2;
        }
        if !res.failures.is_empty() {
            return 1;
        }
        if !zero_probes.is_empty() && num(m, "require-probes", 1) == 1 {
            eprintln!("HARNESS-ERROR probes stuck at zero: {}", J::Arr(zero_probes).to_compact());
            return 2;
        }
        0
    }
}

struct ChunkCmd {
    m: BTreeMap<String, String>,
}

impl LayerFn<i32> for ChunkCmd {
    fn call<L: Layer>(self, layer: L) -> i32 {
        let cfg = cfg_from(&self.m);
        let res = harness::run_chunk(&layer, &cfg, num(&self.m, "from", 0), num(&self.m, "to", 0));
        let bytes = harness::encode_chunk(&layer, &res);
        let mut out = std::io::stdout().lock();
        out.write_all(&bytes).expect("write chunk result");
        out.flush().ok();
        0
    }
}

struct MinimiseCmd {
    j: J,
    out: String,
}

impl LayerFn<i32> for MinimiseCmd {
    fn call<L: Layer>(self, layer: L) -> i32 {
        harness::install_panic_hook();
        let case = match self.j.get("case").ok_or("no case".to_string()).and_then(|c| layer.case_from_json(c)) {
            Ok(c) => c,
            Err(e) => {
                eprintln!("HARNESS-ERROR {e}");
                return 2;
            }
        };
        let key = self
            .j
            .get("expected")
            .map(|e| {
                format!(
                    "{}@{}",
                    e.get("class").and_then(J::as_str).unwrap_or(""),
                    e.get("site").and_then(J::as_str).unwrap_or("")
                )
            })
            .unwrap_or_default();
        let mut scratch = harness::Stats::new(layer.counter_names().len());
        match layer.execute(&case, &mut scratch).violation {
            Some(v) if v.key() == key => {}
            _ => {
                eprintln!("the case does not fail with key {key} in this process");
                return 1;
            }
        }
        let (min_case, v, digest) = harness::minimise(&layer, case, &key);
        let mut j = self.j.clone();
        j.set("case", layer.case_to_json(&min_case));
        j.set("expected", v.to_json());
        j.set("log_digest", J::Str(format!("{digest:016x}")));
        std::fs::write(&self.out, j.to_pretty()).expect("cannot write minimised replay");
        0
    }
}

struct ReplayCmd {
    j: J,
    path: String,
}

impl LayerFn<i32> for ReplayCmd {
    fn call<L: Layer>(self, layer: L) -> i32 {
        if self.j.get("kind").and_then(J::as_str) == Some("run-list") {
            let g = |k: &str| self.j.get(k).and_then(J::as_u64).unwrap_or(0);
            let runs: Vec<u64> = self.j.get("runs").and_then(J::as_arr).map(|a| a.iter().filter_map(J::as_u64).collect()).unwrap_or_default();
            let cfg = BatchCfg {
                seed: g("seed"),
                config: g("config"),
                scale: g("scale").max(1) as u32,
                runs: 0,
                time_budget: None,
                workers: 1,
                samples: 0,
            };
            let want = self.j.get("expected").and_then(|e| e.get("key")).and_then(J::as_str).unwrap_or("").to_string();
            let last = runs.last().copied();
            let res = harness::run_list(&layer, &cfg, 0, runs.iter().copied());
            return match res.failures.iter().find(|f| f.violation.key() == want && Some(f.run) == last) {
                Some(f) => {
                    println!("REPRODUCED key={} at run {} after runs {:?} in this process, detail={}", want, f.run, &runs[..runs.len() - 1], f.violation.detail);
                    println!("VIOLATION property={} replay={}", layer.property(), self.path);
                    1
                }
                None => {
                    println!("NOT-REPRODUCED expected key={} at the last of runs {:?} (build {})", want, runs, harness::build_name());
                    0
                }
            };
        }
        if self.j.get("kind").and_then(J::as_str) == Some("chunk-prefix") {
            // exactly what the batch executed in one of its processes: runs from..to, in order
            let g = |k: &str| self.j.get(k).and_then(J::as_u64).unwrap_or(0);
            let cfg = BatchCfg {
                seed: g("seed"),
                config: g("config"),
                scale: g("scale").max(1) as u32,
                runs: g("to"),
                time_budget: None,
                workers: 1,
                samples: 0,
            };
            let want = self.j.get("expected").and_then(|e| e.get("key")).and_then(J::as_str).unwrap_or("").to_string();
            if want.starts_with("hang-or-crash") {
                println!("re-executing runs {}..{} in this process; a crash or hang here is the reproduction", g("from"), g("to"));
            }
            let res = harness::run_chunk(&layer, &cfg, g("from"), g("to"));
            return match res.failures.iter().find(|f| f.violation.key() == want) {
                Some(f) => {
                    println!(
                        "REPRODUCED key={} at run {} after runs {}..{} in this process, detail={}",
                        want,
                        f.run,
                        g("from"),
                        f.run,
                        f.violation.detail
                    );
                    println!("VIOLATION property={} replay={}", layer.property(), self.path);
                    1
                }
                None => {
                    println!("NOT-REPRODUCED expected key={} in runs {}..{} (build {})", want, g("from"), g("to"), harness::build_name());
                    0
                }
            };
        }
        match harness::replay(&layer, &self.j) {
            Err(e) => {
                eprintln!("HARNESS-ERROR {e}");
                2
            }
            Ok(r) => {
                if r.reproduced {
                    let v = r.violation.unwrap();
                    println!("REPRODUCED key={} step={} detail={}", v.key(), v.step, v.detail);
                    println!("VIOLATION property={} replay={}", layer.property(), self.path);
                    1
                } else {
                    match r.violation {
                        Some(v) => {
                            println!(
                                "DIFFERENT expected key={} step={}, got key={} step={} detail={}",
                                r.expected.key(),
                                r.expected.step,
                                v.key(),
                                v.step,
                                v.detail
                            );
                            println!("VIOLATION property={} replay={}", layer.property(), self.path);
                            1
                        }
                        None => {
                            println!("NOT-REPRODUCED expected key={} (build {})", r.expected.key(), harness::build_name());
                            0
                        }
                    }
                }
            }
        }
    }
}

struct DigestCmd {
    m: BTreeMap<String, String>,
}

impl LayerFn<i32> for DigestCmd {
    fn call<L: Layer>(self, layer: L) -> i32 {
        let m = &self.m;
        let mut cfg = cfg_from(m);
        cfg.time_budget = None;
        cfg.samples = 0;
        let res = harness::run_batch(&layer, &cfg);
        // counters are part of the fingerprint: they must not depend on the worker count either
        let mut d = verif_sim::rng::Digest::default();
        for c in &res.stats.counters {
            d.word(*c);
        }
        d.word(res.stats.states.len() as u64);
        d.word(res.stats.distinct.len() as u64);
        let mut keys: Vec<String> = res.failures.iter().map(|f| format!("{}:{}", f.violation.key(), f.run)).collect();
        keys.sort();
        for k in &keys {
            d.str(k);
        }
        println!(
            "DIGEST layer={} config={} seed={} runs={} build={} batch={:016x} stats={:016x} violating={}",
            layer.name(),
            cfg.config,
            cfg.seed,
            res.runs,
            harness::build_name(),
            res.batch_digest,
            d.0,
            res.violating_runs
        );
        0
    }
}

fn read_json(path: &str) -> J {
    let src = std::fs::read_to_string(path).unwrap_or_else(|e| {
        eprintln!("HARNESS-ERROR cannot read {path}: {e}");
        std::process::exit(2)
    });
    json::parse(&src).unwrap_or_else(|e| {
        eprintln!("HARNESS-ERROR cannot parse {path}: {e}");
        std::process::exit(2)
    })
}

fn layer_of(j: &J) -> String {
    let prop = j.get("property").and_then(J::as_str).unwrap_or("").to_lowercase();
    format!("{}-{}", prop, j.get("layer").and_then(J::as_str).unwrap_or(""))
}

fn main() {
    let args: Vec<String> = std::env::args().skip(1).collect();
    if args.is_empty() {
        eprintln!("usage: sim run|replay|digest ...");
        std::process::exit(2);
    }
    let code = match args[0].as_str() {
        "run" => {
            let m = arg_map(&args[1..]);
            let layer = m.get("layer").cloned().unwrap_or_default();
            with_layer(&layer, RunCmd { m })
        }
        "chunk" => {
            let m = arg_map(&args[1..]);
            let layer = m.get("layer").cloned().unwrap_or_default();
            with_layer(&layer, ChunkCmd { m })
        }
        "digest" => {
            let m = arg_map(&args[1..]);
            let layer = m.get("layer").cloned().unwrap_or_default();
            with_layer(&layer, DigestCmd { m })
        }
        "minimise" => {
            let path = args.get(1).cloned().unwrap_or_default();
            let m = arg_map(&args[2..]);
            let j = read_json(&path);
            let layer = layer_of(&j);
            with_layer(&layer, MinimiseCmd { j, out: m.get("out").cloned().unwrap_or_default() })
        }
        "replay" => {
            let path = args.get(1).cloned().unwrap_or_default();
            let j = read_json(&path);
            let layer = layer_of(&j);
            with_layer(&layer, ReplayCmd { j, path })
        }
        other => {
            eprintln!("unknown command {other}");
            2
        }
    };
    std::process::exit(code);
}
