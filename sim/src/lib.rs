//! Deterministic simulation harness for RustPython/Parser (properties C13 and C15).
//! See /verif/DESIGN.md.

pub mod bigtext;
pub mod c13a;
pub mod c13b;
pub mod c15;
pub mod harness;
pub mod json;
pub mod model;
pub mod pygen;
pub mod rng;
