//! C13, layer A — the linear locator's cursor under seeded legal call histories.
//!
//! System under test (real code): `LinearLocator::{new, locate, locate_only, locate_error}`
//! and `RandomLocator::{new, locate, locate_error}`. The caller is the scheduler: it decides
//! the order and spacing of `locate` calls (non-decreasing, as the contract demands), where
//! look-aheads are interleaved and when the locator is dropped and rebuilt. Every answer is
//! compared with the naive row/column model and with the stateless locator.

use crate::harness::{chunk_removals, guarded, panic_class, Layer, Outcome, Stats, Violation};
use crate::json::{obj, J};
use crate::model;
use crate::rng::{Digest, Rng};
use rustpython_parser_core::source_code::{LinearLocator, LocatedError, RandomLocator, SourceLocation, SourceRange};
use rustpython_parser_core::text_size::TextSize;
use rustpython_parser_core::BaseError;

macro_rules! op_kinds {
    ($($name:ident),* $(,)?) => {
        #[derive(Clone, Copy, Debug, PartialEq, Eq, Hash)]
        #[repr(u8)]
        pub enum K { $($name),* }
        pub const ALL_KINDS: &[K] = &[$(K::$name),*];
        impl K {
            pub fn name(self) -> &'static str { match self { $(K::$name => stringify!($name)),* } }
            pub fn from_name(s: &str) -> Option<K> { match s { $(stringify!($name) => Some(K::$name),)* _ => None } }
        }
    };
}

op_kinds!(Locate, LocateOnly, LocateError, LocateZero, Fresh, RandomProbe);

#[derive(Clone, Copy, Debug, PartialEq, Eq)]
pub struct Op {
    pub k: K,
    pub a: u32,
    pub b: u32,
}

#[derive(Clone, Debug)]
pub struct Case {
    pub text: String,
    pub ops: Vec<Op>,
    /// offsets between CR and LF may be chosen (fault kind)
    pub inside_crlf: bool,
    /// the text starts this many bytes into a buffer (unaligned slice start)
    pub align: u8,
}

macro_rules! counters {
    ($($name:ident),* $(,)?) => {
        #[allow(non_camel_case_types, dead_code)]
        #[derive(Clone, Copy)]
        #[repr(usize)]
        pub enum C { $($name),* }
        pub const COUNTER_NAMES: &[&str] = &[$(stringify!($name)),*];
    };
}

counters!(
    op_Locate,
    op_LocateOnly,
    op_LocateError,
    op_LocateZero,
    op_Fresh,
    op_RandomProbe,
    fault_locator_rebuilt_midway,
    fault_lookahead_between_locates,
    fault_far_lookahead_across_lines,
    fault_offset_inside_crlf,
    fault_unaligned_text_address,
    probe_same_offset_twice,
    probe_same_line,
    probe_next_line,
    probe_many_lines,
    probe_nonascii_target_line,
    probe_bom_text,
    probe_bom_offset_zero,
    probe_target_last_line,
    probe_target_eof_after_break,
    probe_crossed_crlf,
    probe_crossed_lone_cr,
    probe_error_path,
);

const PIECES: &[&str] = &["\n", "\r", "\r\n", "a", "bc", "é", "→", "😀", " ", "x = 1", "# é", "\t"];
const SMALL: &[&str] = &["\n", "\r", "a", "é", "\u{feff}", "b"];
const PYLINES: &[&str] = &[
    "x = 1",
    "def f(a, b):",
    "    return a + b",
    "s = 'é→😀'",
    "class C(k=1, *b): pass",
    "",
    "# comment ü",
    "f(a, k=1, *b)",
    "y = {**a, 'k': v}",
];

pub fn gen_text(r: &mut Rng, scale: u32) -> String {
    if r.chance(1, 4000) {
        return crate::bigtext::gen_big_text_scaled(r, scale > 1);
    }
    if r.chance(1, 150) {
        return crate::bigtext::gen_medium_text(r);
    }
    let style = r.below(100);
    let mut text = String::new();
    if style < 25 {
        if r.chance(1, 4) {
            text.push('\u{feff}');
        }
        for _ in 0..r.below(7) {
            text.push_str(*r.pick::<&str>(SMALL));
        }
    } else if style < 70 {
        let mut w = [0u32; 12];
        for x in w.iter_mut() {
            *x = *r.pick(&[0u32, 1, 1, 2, 4]);
        }
        if w.iter().all(|&x| x == 0) {
            w[0] = 1;
        }
        if r.chance(15, 100) {
            text.push('\u{feff}');
        }
        let n = if style >= 65 { r.range(13, 40 * scale as u64) } else { r.below(13) };
        let lookalikes = r.chance(1, 6);
        for _ in 0..n {
            if lookalikes && r.chance(1, 3) {
                text.push_str(*r.pick::<&str>(crate::c15::LOOKALIKES));
            } else {
                text.push_str(PIECES[r.weighted(&w)]);
            }
        }
    } else {
        if r.chance(15, 100) {
            text.push('\u{feff}');
        }
        let eols = ["\n", "\r\n", "\r"];
        let fixed = r.below(4); // 3 = mixed
        for _ in 0..r.range(1, 8 * scale as u64) {
            text.push_str(*r.pick::<&str>(PYLINES));
            let e = if fixed < 3 { fixed } else { r.below(3) };
            text.push_str(eols[e as usize]);
        }
        if r.chance(1, 3) {
            text.push_str(*r.pick::<&str>(PYLINES)); // unterminated last line
        }
    }
    text
}

pub fn generate(seed: u64, config: u64, scale: u32) -> Case {
    let mut r = Rng::new(seed);
    let faults = config == 1;
    let text = gen_text(&mut r, scale);
    let mut w = [0u32; 6];
    w[K::Locate as usize] = *r.pick(&[4u32, 8, 12]);
    w[K::LocateError as usize] = *r.pick(&[0u32, 1, 2]);
    w[K::RandomProbe as usize] = *r.pick(&[0u32, 1, 2]);
    if faults {
        w[K::LocateOnly as usize] = *r.pick(&[1u32, 4, 8]);
        w[K::Fresh as usize] = *r.pick(&[0u32, 1, 2]);
    }
    let n = r.range(1, 32);
    let mut ops = Vec::new();
    if text.starts_with(model::BOM) && faults && r.chance(1, 3) {
        ops.push(Op { k: K::LocateZero, a: 0, b: 0 });
    }
    for _ in 0..n {
        ops.push(Op {
            k: ALL_KINDS[r.weighted(&w)],
            a: r.next_u32(),
            b: r.next_u32(),
        });
    }
    if text.len() > (1 << 20) {
        ops.truncate(8); // multi-megabyte texts: a short history is enough and keeps the run cheap
    }
    let inside_crlf = faults && r.chance(1, 3);
    let align = if r.chance(1, 2) { r.below(8) as u8 } else { 0 };
    Case { text, ops, inside_crlf, align }
}

/// Offsets a node or an error can have: character boundaries, but not the position in front
/// of a leading BOM (that one is `LocateZero`). Positions between the CR and the LF of a
/// CRLF are included only when the case asks for them: the parser does hand them out (error
/// offsets and replacement fields of CRLF f-strings), so they are a fault kind of config 1.
fn legal_offsets(text: &str, with_inside_crlf: bool) -> Vec<usize> {
    model::boundaries(text)
        .into_iter()
        .filter(|&o| with_inside_crlf || !model::inside_crlf(text, o))
        .filter(|&o| !(text.starts_with(model::BOM) && o < 3))
        .collect()
}

fn resolve(text: &str, rows: &[(usize, usize)], line_ends: &[usize], legal: &[usize], last: usize, a: u32, b: u32) -> usize {
    // candidates at or after `last`
    let from = legal.partition_point(|&o| o < last);
    let cand = &legal[from..];
    if cand.is_empty() {
        return last;
    }
    let _ = text;
    let cur_row = rows.partition_point(|&(s, _)| s <= last).saturating_sub(1);
    let pick = |v: &[usize], sel: u32| v[sel as usize % v.len()];
    match a % 8 {
        0 => cand[0].max(last),                         // same offset again (or first legal one)
        1 => cand[(1usize).min(cand.len() - 1)],        // next boundary
        2 => {
            // within the current line
            let end = rows[cur_row].1;
            let v: Vec<usize> = cand.iter().copied().filter(|&o| o <= end).collect();
            if v.is_empty() { cand[0] } else { pick(&v, b) }
        }
        3 => {
            // start of the next line
            match rows.get(cur_row + 1) {
                Some(&(s, _)) if legal.binary_search(&s).is_ok() => s,
                _ => *cand.last().unwrap(),
            }
        }
        4 => {
            // somewhere k lines further down
            let k = 1 + (b % 4) as usize;
            let row = (cur_row + k).min(rows.len() - 1);
            let (s, e) = rows[row];
            let v: Vec<usize> = cand.iter().copied().filter(|&o| o >= s && o <= e).collect();
            if v.is_empty() { *cand.last().unwrap() } else { pick(&v, b / 4) }
        }
        5 => *cand.last().unwrap(), // end of text
        6 => {
            // line ends / line starts only
            let v: Vec<usize> = cand
                .iter()
                .copied()
                .filter(|&o| rows.binary_search_by_key(&o, |&(s, _)| s).is_ok() || line_ends.binary_search(&o).is_ok() || o == rows[rows.len() - 1].1)
                .collect();
            if v.is_empty() { cand[0] } else { pick(&v, b) }
        }
        _ => pick(cand, b),
    }
}

fn loc_tuple(l: SourceLocation) -> (u32, u32) {
    (l.row.get(), l.column.get())
}

pub fn execute(case: &Case, stats: &mut Stats) -> Outcome {
    let mut buf = String::with_capacity(case.text.len() + 8);
    for _ in 0..case.align {
        buf.push('#');
    }
    buf.push_str(&case.text);
    let text: &str = &buf[case.align as usize..];
    if case.align > 0 {
        stats.bump(C::fault_unaligned_text_address as usize);
    }
    let mut dg = Digest::default();
    dg.str(text);
    dg.byte(case.align);
    let legal = legal_offsets(text, case.inside_crlf);
    let table = model::RowTable::new(text);
    let rows = &table.rows;
    let line_ends: Vec<usize> = model::split_lines(text).iter().map(|l| l.end).collect();
    let has_bom = text.starts_with(model::BOM);
    if has_bom {
        stats.bump(C::probe_bom_text as usize);
    }
    let built = guarded(|| (LinearLocator::new(text), RandomLocator::new(text)));
    let (mut lin, mut rnd) = match built {
        Ok(x) => x,
        Err(p) => {
            return Outcome {
                digest: dg.0,
                steps: 0,
                violation: Some(Violation {
                    class: format!("panic:{}", panic_class(&p)),
                    site: "New".into(),
                    step: 0,
                    detail: p,
                }),
                harness_error: None,
            }
        }
    };
    let mut last = 0usize; // last offset given to `locate`
    let mut located_any = false;
    let mut prev_was_lookahead = false;
    let mut violation: Option<Violation> = None;
    let mut steps = 0u64;
    let mut nontrivial = false;

    'ops: for (i, op) in case.ops.iter().enumerate() {
        steps += 1;
        stats.bump(op.k as usize);
        dg.byte(op.k as u8);
        let fail = |class: String, detail: String| Violation {
            class,
            site: op.k.name().to_string(),
            step: i,
            detail,
        };
        match op.k {
            K::Fresh => {
                if located_any {
                    stats.bump(C::fault_locator_rebuilt_midway as usize);
                }
                match guarded(|| LinearLocator::new(text)) {
                    Ok(l) => lin = l,
                    Err(p) => {
                        violation = Some(fail(format!("panic:{}", panic_class(&p)), p));
                        break 'ops;
                    }
                }
                last = 0;
                located_any = false;
            }
            K::RandomProbe => {
                let o = legal[op.a as usize % legal.len()];
                let want = table.row_col(o);
                match guarded(|| rnd.locate(TextSize::new(o as u32))) {
                    Ok(got) => {
                        dg.word(o as u64);
                        if loc_tuple(got) != want {
                            violation = Some(fail(
                                "random-mismatch".into(),
                                format!("RandomLocator.locate({o}) = {:?}, model {:?}", loc_tuple(got), want),
                            ));
                            break 'ops;
                        }
                    }
                    Err(p) => {
                        violation = Some(fail(format!("panic:{}", panic_class(&p)), p));
                        break 'ops;
                    }
                }
            }
            K::Locate | K::LocateOnly | K::LocateError | K::LocateZero => {
                let zero = op.k == K::LocateZero && has_bom && last == 0 && !located_any;
                let o = if zero {
                    0
                } else if op.k == K::LocateZero {
                    resolve(text, rows, &line_ends, &legal, last, 0, 0)
                } else {
                    resolve(text, rows, &line_ends, &legal, last, op.a, op.b)
                };
                dg.word(o as u64);
                let want = table.row_col(o);
                // reach probes
                let from_row = table.row_of(last);
                let to_row = want.0 as usize - 1;
                match to_row.saturating_sub(from_row) {
                    0 if o == last && located_any => stats.bump(C::probe_same_offset_twice as usize),
                    0 => stats.bump(C::probe_same_line as usize),
                    1 => stats.bump(C::probe_next_line as usize),
                    _ => stats.bump(C::probe_many_lines as usize),
                }
                if to_row > from_row {
                    nontrivial = true;
                    let crossed = &text[last..o];
                    if crossed.contains("\r\n") {
                        stats.bump(C::probe_crossed_crlf as usize);
                    } else if crossed.contains('\r') {
                        stats.bump(C::probe_crossed_lone_cr as usize);
                    }
                }
                let (rs, re) = rows[to_row];
                if !text[rs..re].is_ascii() {
                    stats.bump(C::probe_nonascii_target_line as usize);
                    nontrivial = true;
                }
                if to_row + 1 == rows.len() {
                    stats.bump(C::probe_target_last_line as usize);
                    if o == text.len() && rs == re && to_row > 0 {
                        stats.bump(C::probe_target_eof_after_break as usize);
                    }
                }
                if zero {
                    stats.bump(C::probe_bom_offset_zero as usize);
                }
                if model::inside_crlf(text, o) {
                    stats.bump(C::fault_offset_inside_crlf as usize);
                }
                stats.states.insert(
                    (op.k as u64)
                        | ((to_row.saturating_sub(from_row).min(3) as u64) << 4)
                        | ((!text[rs..re].is_ascii() as u64) << 6)
                        | ((has_bom as u64) << 7)
                        | (((to_row + 1 == rows.len()) as u64) << 8)
                        | ((prev_was_lookahead as u64) << 9)
                        | (((to_row == 0) as u64) << 10)
                        | (((o == rs) as u64) << 11)
                        | (((o == re) as u64) << 12),
                );
                let class_of = |c: &str| if zero { "bom-offset0".to_string() } else { c.to_string() };
                let ts = TextSize::new(o as u32);
                let before = lin.verif_state();
                let got = guarded(|| match op.k {
                    K::LocateOnly => (lin.locate_only(ts), None),
                    K::LocateError => {
                        let e: LocatedError<String> = lin.locate_error(BaseError {
                            error: "boom",
                            offset: ts,
                            source_path: "p.py".to_string(),
                        });
                        (e.location.unwrap_or_default(), Some(e))
                    }
                    _ => (lin.locate(ts), None),
                });
                let (lgot, lerr) = match got {
                    Ok(x) => x,
                    Err(p) => {
                        let c = if zero { "bom-offset0".to_string() } else { format!("panic:{}", panic_class(&p)) };
                        violation = Some(fail(c, format!("LinearLocator panicked at offset {o} (cursor {}): {p}", before.cursor)));
                        break 'ops;
                    }
                };
                let rgot = guarded(|| match op.k {
                    K::LocateError => {
                        let e: LocatedError<String> = rnd.locate_error(BaseError {
                            error: "boom",
                            offset: ts,
                            source_path: "p.py".to_string(),
                        });
                        (e.location.unwrap_or_default(), Some(e))
                    }
                    _ => (rnd.locate(ts), None),
                });
                let (rgot, rerr) = match rgot {
                    Ok(x) => x,
                    Err(p) => {
                        violation = Some(fail(class_of(&format!("panic:{}", panic_class(&p))), format!("RandomLocator panicked at offset {o}: {p}")));
                        break 'ops;
                    }
                };
                if op.k == K::LocateError {
                    stats.bump(C::probe_error_path as usize);
                    // the small conversions around a located error / a located range
                    let conv = guarded(|| {
                        let e1: LocatedError<String> = LocatedError { error: "x".to_string(), location: Some(rgot), source_path: "p".into() };
                        let e2: LocatedError<std::borrow::Cow<'static, str>> = LocatedError::from(LocatedError { error: "x", location: Some(rgot), source_path: "p".to_string() });
                        let e3: LocatedError<String> = LocatedError { error: "x", location: Some(rgot), source_path: "p".to_string() }.into();
                        let sr = SourceRange::new(lgot, rgot);
                        let sr2: SourceRange = (lgot..rgot).into();
                        (
                            e1.python_location(),
                            e2.location.map(loc_tuple),
                            e3.location.map(loc_tuple),
                            e3.error(),
                            loc_tuple(sr.start),
                            loc_tuple(sr.unwrap_end()),
                            loc_tuple(sr2.start),
                            sr2.end.map(loc_tuple),
                            LocatedError { error: 1u8, location: None, source_path: String::new() }.python_location(),
                        )
                    });
                    match conv {
                        Ok(c) => {
                            let r = loc_tuple(rgot);
                            let l = loc_tuple(lgot);
                            if c != ((r.0 as usize, r.1 as usize), Some(r), Some(r), "x".to_string(), l, r, l, Some(r), (0, 0)) {
                                violation = Some(fail(class_of("error-conversion"), format!("LocatedError/SourceRange conversions: {:?}", c)));
                                break 'ops;
                            }
                        }
                        Err(p) => {
                            violation = Some(fail(class_of(&format!("panic:{}", panic_class(&p))), p));
                            break 'ops;
                        }
                    }
                    let ok = |e: &Option<LocatedError<String>>| {
                        e.as_ref().is_some_and(|e| {
                            e.error == "boom"
                                && e.source_path == "p.py"
                                && e.location.map(loc_tuple) == Some(want)
                                && e.python_location() == (want.0 as usize, want.1 as usize)
                                && format!("{e}") == format!("boom at row {} col {}", want.0, want.1)
                        })
                    };
                    if !ok(&lerr) || !ok(&rerr) {
                        violation = Some(fail(
                            class_of("error-conversion"),
                            format!("locate_error at {o}: linear {:?}, random {:?}, model {:?}", lerr, rerr, want),
                        ));
                        break 'ops;
                    }
                }
                if loc_tuple(lgot) != want || loc_tuple(rgot) != want {
                    violation = Some(fail(
                        class_of(if loc_tuple(rgot) != want { "random-mismatch" } else { "linear-mismatch" }),
                        format!(
                            "offset {o} (previous locate {last}): linear {:?}, random {:?}, model {:?}",
                            loc_tuple(lgot),
                            loc_tuple(rgot),
                            want
                        ),
                    ));
                    break 'ops;
                }
                let after = lin.verif_state();
                if op.k == K::LocateOnly {
                    stats.bump(C::fault_lookahead_between_locates as usize);
                    if to_row > from_row {
                        stats.bump(C::fault_far_lookahead_across_lines as usize);
                    }
                    // the look-ahead must not move the cursor
                    if after != before {
                        violation = Some(fail(
                            "lookahead-moved-cursor".into(),
                            format!("locate_only({o}) changed the cursor state {:?} -> {:?}", before, after),
                        ));
                        break 'ops;
                    }
                    prev_was_lookahead = true;
                } else {
                    // the cursor's notion of "current line" must be a row of the text
                    let row = after.line_number as usize - 1;
                    let ok = row < rows.len() && {
                        let (s, e) = rows[row];
                        let s_adj = if row == 0 && has_bom { 3.min(e) } else { s };
                        (after.line_start as usize == s_adj || after.line_start as usize == s)
                            && match after.line_end {
                                Some(le) => le as usize == e && row + 1 < rows.len(),
                                None => row + 1 == rows.len(),
                            }
                            // the ASCII fast-path flag may only be set when the row really is ASCII
                            && (!after.is_ascii || text[s..model::split_lines(&text[s..e]).first().map_or(e, |l| s + l.end)].is_ascii())
                    };
                    if !ok && !zero {
                        violation = Some(fail(
                            "cursor-state".into(),
                            format!("after locate({o}) the cursor state {:?} names no row of the text", after),
                        ));
                        break 'ops;
                    }
                    last = o;
                    located_any = true;
                    prev_was_lookahead = false;
                }
            }
        }
    }
    if nontrivial {
        stats.note_distinct(dg.0);
    }
    Outcome {
        digest: dg.0,
        steps,
        violation,
        harness_error: None,
    }
}

pub fn shrink(case: &Case) -> Vec<Case> {
    let mut out = Vec::new();
    for ops in chunk_removals(&case.ops) {
        out.push(Case { ops, ..case.clone() });
    }
    let chars: Vec<char> = case.text.chars().collect();
    for rem in chunk_removals(&chars) {
        out.push(Case { text: rem.into_iter().collect(), ..case.clone() });
    }
    for i in 0..if chars.len() <= 600 { chars.len() } else { 0 } {
        let repl = match chars[i] {
            'a' | '\n' => continue,
            '\r' if i + 1 < chars.len() && chars[i + 1] == '\n' => continue,
            '\r' => '\n',
            _ => 'a',
        };
        let mut c2 = chars.clone();
        c2[i] = repl;
        out.push(Case { text: c2.into_iter().collect(), ..case.clone() });
    }
    if case.inside_crlf {
        out.push(Case { inside_crlf: false, ..case.clone() });
    }
    if case.align > 0 {
        out.push(Case { align: 0, ..case.clone() });
    }
    for (i, op) in case.ops.iter().enumerate() {
        for (a, b) in [(0, 0), (op.a % 8, op.b % 16), (op.a % 8, op.b), (op.a, 0)] {
            if (a, b) != (op.a, op.b) && a <= op.a && b <= op.b {
                let mut c2 = case.clone();
                c2.ops[i] = Op { k: op.k, a, b };
                out.push(c2);
            }
        }
        if matches!(op.k, K::LocateError | K::LocateOnly) {
            let mut c2 = case.clone();
            c2.ops[i].k = K::Locate;
            out.push(c2);
        }
    }
    out
}

pub fn case_size(case: &Case) -> usize {
    let args: usize = case
        .ops
        .iter()
        .map(|o| {
            (64 - (o.a as u64).leading_zeros() as usize)
                + (64 - (o.b as u64).leading_zeros() as usize)
                + matches!(o.k, K::LocateError | K::LocateOnly) as usize
        })
        .sum();
    case.ops.len() * 100_000
        + case.text.len() * 1000
        + args
        + case.text.chars().filter(|c| !matches!(c, 'a' | '\n')).count() * 10
        + case.inside_crlf as usize * 500
        + case.align as usize * 20
}

pub fn case_to_json(case: &Case) -> J {
    obj(vec![
        ("text", case.text.as_str().into()),
        ("offsets_inside_crlf_allowed", case.inside_crlf.into()),
        ("text_starts_at_buffer_offset", (case.align as u32).into()),
        (
            "ops",
            J::Arr(case.ops.iter().map(|o| J::Arr(vec![o.k.name().into(), o.a.into(), o.b.into()])).collect()),
        ),
    ])
}

pub fn case_from_json(j: &J) -> Result<Case, String> {
    let text = j.get("text").and_then(J::as_str).ok_or("case.text")?.to_string();
    let mut ops = Vec::new();
    for o in j.get("ops").and_then(J::as_arr).ok_or("case.ops")? {
        let a = o.as_arr().ok_or("op")?;
        let k = K::from_name(a.first().and_then(J::as_str).ok_or("op kind")?).ok_or("unknown op kind")?;
        let g = |i: usize| a.get(i).and_then(J::as_u64).unwrap_or(0) as u32;
        ops.push(Op { k, a: g(1), b: g(2) });
    }
    let inside_crlf = j.get("offsets_inside_crlf_allowed").and_then(J::as_bool).unwrap_or(false);
    let align = j.get("text_starts_at_buffer_offset").and_then(J::as_u64).unwrap_or(0) as u8;
    Ok(Case { text, ops, inside_crlf, align })
}

pub struct CursorLayer;

impl Layer for CursorLayer {
    type Case = Case;
    fn name(&self) -> &'static str {
        "cursor"
    }
    fn property(&self) -> &'static str {
        "C13"
    }
    fn counter_names(&self) -> &'static [&'static str] {
        COUNTER_NAMES
    }
    fn chunk_runs(&self) -> u64 {
        16384
    }
    fn required_probes(&self, config: u64) -> Vec<usize> {
        let mut v = vec![
            C::probe_same_offset_twice as usize,
            C::probe_same_line as usize,
            C::probe_next_line as usize,
            C::probe_many_lines as usize,
            C::probe_nonascii_target_line as usize,
            C::probe_bom_text as usize,
            C::probe_target_last_line as usize,
            C::probe_target_eof_after_break as usize,
            C::probe_crossed_crlf as usize,
            C::probe_crossed_lone_cr as usize,
            C::probe_error_path as usize,
        ];
        if config == 1 {
            v.extend([
                C::fault_locator_rebuilt_midway as usize,
                C::fault_lookahead_between_locates as usize,
                C::fault_far_lookahead_across_lines as usize,
                C::probe_bom_offset_zero as usize,
                C::fault_offset_inside_crlf as usize,
            ]);
        }
        v
    }
    fn generate(&self, run_seed: u64, config: u64, scale: u32) -> Case {
        generate(run_seed, config, scale)
    }
    fn execute(&self, case: &Case, stats: &mut Stats) -> Outcome {
        execute(case, stats)
    }
    fn shrink(&self, case: &Case) -> Vec<Case> {
        shrink(case)
    }
    fn case_to_json(&self, case: &Case) -> J {
        case_to_json(case)
    }
    fn case_from_json(&self, j: &J) -> Result<Case, String> {
        case_from_json(j)
    }
    fn case_size(&self, case: &Case) -> usize {
        case_size(case)
    }
}
