//! C13, layer B — the call histories the real `Fold` drivers issue.
//!
//! Real code end to end: seeded program -> `rustpython_parser::parse` -> the shipped
//! `Fold<TextRange>` implementations of `LinearLocator` and `RandomLocator`. The harness
//! adds (1) the naive row/column model applied to every node range, (2) the recorded
//! `locate`/`locate_only` call history of the linear fold (hook), checked for a cursor that
//! never moves backwards, (3) node-by-node comparison of the three results, reporting the
//! first diverging node as a structural site. Parse errors go through `locate_error`.

use crate::harness::{chunk_removals, guarded, panic_class, Layer, Outcome, Stats, Violation};
use crate::json::{obj, J};
use crate::model;
use crate::pygen::{self, PMode};
use crate::rng::{Digest, Rng};
use rustpython_ast::fold::{self, Fold};
use rustpython_ast::{self as ast};
use rustpython_parser::{parse, parse_starts_at, Mode};
use rustpython_parser_core::source_code::verif_hooks::{self, CallKind};
use rustpython_parser_core::source_code::{LinearLocator, LocatedError, RandomLocator, SourceRange};
use rustpython_parser_core::text_size::{TextRange, TextSize};
use std::collections::HashMap;
use std::fmt::Write as _;

#[derive(Clone, Debug)]
pub struct Case {
    pub source: String,
    pub mode: PMode,
    /// the composer meant this program to be valid (false for deliberately broken ones and
    /// for shrink candidates)
    pub expect_valid: bool,
    pub constructs: Vec<&'static str>,
    /// the program is the suffix `source[start..]` of a larger text and is parsed with
    /// `parse_starts_at(.., start)`: node ranges are offsets into the whole text, and the first
    /// `locate` of the linear cursor has to cross everything in front of the program
    pub start: usize,
    /// the source text starts this many bytes into a buffer (unaligned slice start)
    pub align: u8,
}

macro_rules! counters {
    ($($name:ident),* $(,)?) => {
        #[allow(non_camel_case_types, dead_code)]
        #[derive(Clone, Copy)]
        #[repr(usize)]
        pub enum C { $($name),* }
        pub const COUNTER_NAMES: &[&str] = &[$(stringify!($name)),*];
    };
}

counters!(
    programs_parsed,
    programs_composed_valid,
    programs_composed_but_rejected,
    programs_broken_on_purpose,
    programs_broken_but_still_valid,
    trees_with_a_range_that_is_no_source_extent,
    error_path_conversions,
    error_offset_not_on_char_boundary,
    nodes_located,
    located_accessor_reads,
    nodes_spanning_lines,
    locate_calls,
    locate_only_calls,
    fault_truncated,
    fault_chunk_deleted,
    fault_parsed_from_an_offset,
    fault_unaligned_text_address,
    fault_statementwise_fold,
    fault_subset_of_statements_fold,
    probe_bom_program,
    probe_crlf_program,
    probe_cr_program,
    probe_nonascii_program,
    probe_multiline_program,
    probe_lookahead_across_lines,
    probe_mode_expression,
    probe_mode_interactive,
    probe_keyword_before_starred_arg_multiline,
    probe_class_keyword_before_starred_base,
    probe_fstring_concat,
    probe_dict_unpack,
    probe_ifexp,
    probe_decorator,
    probe_match_mapping,
);

// ------------------------------------------------------------------------------------------
// collectors

/// Collects every user value (`TextRange` or `SourceRange`) in generic fold order, together
/// with the kind path of the node that carries it.
struct Collector<U> {
    items: Vec<U>,
    kinds: Vec<u32>, // packed: parent kind id << 16 | kind id
    in_fstring: Vec<bool>,
    depths: Vec<u16>,
    stack: Vec<u16>,
    names: KindNames,
}

#[derive(Default)]
struct KindNames {
    names: Vec<String>,
    by_disc: HashMap<(u8, u64), u16>,
}

struct Head(String);
impl std::fmt::Write for Head {
    fn write_str(&mut self, s: &str) -> std::fmt::Result {
        self.0.push_str(s);
        if self.0.len() > 40 {
            Err(std::fmt::Error)
        } else {
            Ok(())
        }
    }
}

fn head_name<T: std::fmt::Debug>(x: &T) -> String {
    let mut h = Head(String::new());
    let _ = write!(h, "{:?}", x);
    let s = h.0;
    let end = s.find(|c: char| !(c.is_ascii_alphanumeric() || c == '_')).unwrap_or(s.len());
    s[..end].to_string()
}

fn disc_u64<T>(x: &T) -> u64 {
    // std::mem::Discriminant is opaque; hash it
    use std::hash::{Hash, Hasher};
    let mut h = std::collections::hash_map::DefaultHasher::new();
    std::mem::discriminant(x).hash(&mut h);
    h.finish()
}

impl KindNames {
    fn id<T: std::fmt::Debug>(&mut self, family: u8, node: &T, is_enum: bool) -> u16 {
        let d = if is_enum { disc_u64(node) } else { 0 };
        if let Some(&i) = self.by_disc.get(&(family, d)) {
            return i;
        }
        let name = head_name(node);
        let i = match self.names.iter().position(|n| *n == name) {
            Some(i) => i as u16,
            None => {
                self.names.push(name);
                (self.names.len() - 1) as u16
            }
        };
        self.by_disc.insert((family, d), i);
        i
    }
}

thread_local! {
    static KIND_NAMES: std::cell::RefCell<KindNames> = std::cell::RefCell::new(KindNames::default());
}

impl<U> Collector<U> {
    fn new() -> Self {
        Collector {
            items: Vec::new(),
            kinds: Vec::new(),
            in_fstring: Vec::new(),
            depths: Vec::new(),
            stack: Vec::new(),
            names: KIND_NAMES.with(|k| std::mem::take(&mut *k.borrow_mut())),
        }
    }
    fn finish(mut self, want_names: bool) -> (Vec<U>, Vec<u32>, Vec<String>, Vec<bool>, Vec<u16>) {
        let names = if want_names { self.names.names.clone() } else { Vec::new() };
        KIND_NAMES.with(|k| *k.borrow_mut() = std::mem::take(&mut self.names));
        (self.items, self.kinds, names, self.in_fstring, self.depths)
    }
}

macro_rules! kinded {
    ($method:ident, $free:ident, $ty:ident, $family:expr, $is_enum:expr) => {
        fn $method(&mut self, node: ast::$ty<U>) -> Result<ast::$ty<U>, Self::Error> {
            let id = self.names.id($family, &node, $is_enum);
            self.stack.push(id);
            let r = fold::$free(self, node);
            self.stack.pop();
            r
        }
    };
}

impl<U: Clone + std::fmt::Debug> Fold<U> for Collector<U> {
    type TargetU = U;
    type Error = std::convert::Infallible;
    type UserContext = ();

    fn will_map_user(&mut self, user: &U) -> Self::UserContext {
        let n = self.stack.len();
        let kind = if n > 0 { self.stack[n - 1] as u32 } else { 0xffff };
        let parent = if n > 1 { self.stack[n - 2] as u32 } else { 0xffff };
        self.items.push(user.clone());
        self.kinds.push((parent << 16) | kind);
        let fs = self.stack.iter().any(|&k| {
            let n = &self.names.names[k as usize];
            n == "JoinedStr" || n == "FormattedValue"
        });
        self.in_fstring.push(fs);
        self.depths.push(n as u16);
    }
    fn map_user(&mut self, user: U, _context: ()) -> Result<U, Self::Error> {
        Ok(user)
    }

    kinded!(fold_mod, fold_mod, Mod, 0, true);
    kinded!(fold_stmt, fold_stmt, Stmt, 1, true);
    kinded!(fold_expr, fold_expr, Expr, 2, true);
    kinded!(fold_pattern, fold_pattern, Pattern, 3, true);
    kinded!(fold_excepthandler, fold_excepthandler, ExceptHandler, 4, true);
    kinded!(fold_type_param, fold_type_param, TypeParam, 5, true);
    kinded!(fold_keyword, fold_keyword, Keyword, 6, false);
    kinded!(fold_arg, fold_arg, Arg, 7, false);
    kinded!(fold_alias, fold_alias, Alias, 8, false);
    kinded!(fold_withitem, fold_withitem, WithItem, 9, false);
    kinded!(fold_match_case, fold_match_case, MatchCase, 10, false);
    kinded!(fold_comprehension, fold_comprehension, Comprehension, 11, false);
    kinded!(fold_arguments, fold_arguments, Arguments, 12, false);
    kinded!(fold_arg_with_default, fold_arg_with_default, ArgWithDefault, 13, false);
}

/// Reads every located node back through the `Located` accessors (`range`, `location`,
/// `end_location`) and compares them with the range the fold stored in the node.
struct LocatedChecker {
    pending: Option<((u32, u32), Option<(u32, u32)>)>,
    idx: usize,
    checked: u64,
    bad: Option<(usize, String)>,
}

impl LocatedChecker {
    fn expect<T: ast::located::Located>(&mut self, node: &T) {
        let r = node.range();
        let t = sr_tuple(&r);
        let loc = node.location();
        let end = node.end_location();
        if ((loc.row.get(), loc.column.get()), end.map(|e| (e.row.get(), e.column.get()))) != t && self.bad.is_none() {
            self.bad = Some((self.idx, format!("location()/end_location() disagree with range() {:?}", t)));
        }
        self.pending = Some(t);
    }
}

macro_rules! located_checked {
    ($method:ident, $ty:ident) => {
        fn $method(&mut self, node: ast::$ty<SourceRange>) -> Result<ast::$ty<SourceRange>, Self::Error> {
            self.expect(&node);
            fold::$method(self, node)
        }
    };
}

impl Fold<SourceRange> for LocatedChecker {
    type TargetU = SourceRange;
    type Error = std::convert::Infallible;
    type UserContext = ();

    fn will_map_user(&mut self, user: &SourceRange) -> Self::UserContext {
        if let Some(want) = self.pending.take() {
            self.checked += 1;
            if sr_tuple(user) != want && self.bad.is_none() {
                self.bad = Some((
                    self.idx,
                    format!("Located::range() = {:?} but the node stores {:?}", want, sr_tuple(user)),
                ));
            }
        }
        self.idx += 1;
    }
    fn map_user(&mut self, user: SourceRange, _context: ()) -> Result<SourceRange, Self::Error> {
        Ok(user)
    }

    located_checked!(fold_stmt, Stmt);
    located_checked!(fold_expr, Expr);
    located_checked!(fold_pattern, Pattern);
    located_checked!(fold_excepthandler, ExceptHandler);
    located_checked!(fold_type_param, TypeParam);
    located_checked!(fold_keyword, Keyword);
    located_checked!(fold_arg, Arg);
    located_checked!(fold_alias, Alias);
    #[cfg(feature = "all-nodes-with-ranges")]
    located_checked!(fold_mod, Mod);
    #[cfg(feature = "all-nodes-with-ranges")]
    located_checked!(fold_withitem, WithItem);
    #[cfg(feature = "all-nodes-with-ranges")]
    located_checked!(fold_match_case, MatchCase);
    #[cfg(feature = "all-nodes-with-ranges")]
    located_checked!(fold_comprehension, Comprehension);
    #[cfg(feature = "all-nodes-with-ranges")]
    located_checked!(fold_arguments, Arguments);
    #[cfg(feature = "all-nodes-with-ranges")]
    located_checked!(fold_arg_with_default, ArgWithDefault);
}

fn kind_label(names: &[String], packed: u32) -> String {
    let k = (packed & 0xffff) as usize;
    let p = (packed >> 16) as usize;
    let kn = names.get(k).map(String::as_str).unwrap_or("?");
    match names.get(p) {
        Some(pn) => format!("{pn}>{kn}"),
        None => kn.to_string(),
    }
}

// ------------------------------------------------------------------------------------------
// generation

pub fn generate(seed: u64, config: u64, scale: u32) -> Case {
    let mut r = Rng::new(seed);
    let prog = pygen::compose(&mut r, scale);
    let mut source = prog.source;
    let mut expect_valid = true;
    if config == 1 && r.chance(1, 4) && !source.is_empty() {
        // fault: damage the program so that the parser reports an error somewhere
        expect_valid = false;
        let bs = model::boundaries(&source);
        if r.chance(1, 2) {
            let k = bs[r.below(bs.len() as u64) as usize];
            source.truncate(k);
        } else {
            let i = r.below(bs.len() as u64) as usize;
            let j = (i + 1 + r.below(3) as usize).min(bs.len() - 1);
            source.replace_range(bs[i]..bs[j], "");
        }
    }
    // fault (config 1): the program sits inside a larger text and is parsed from an offset
    let mut start = 0usize;
    if config == 1 && r.chance(1, 5) && !source.starts_with(model::BOM) {
        let mut prefix = String::new();
        if r.chance(1, 4) {
            prefix.push(model::BOM);
        }
        let eols = ["\n", "\r\n", "\r"];
        for _ in 0..r.range(1, 6) {
            prefix.push_str(*r.pick(&["# header", "", "# é→😀 note", "x = 0", "\"\"\"doc\"\"\""]));
            prefix.push_str(eols[r.below(3) as usize]);
        }
        if prog.mode == PMode::Expression && r.chance(1, 2) {
            prefix.push_str("y = é + "); // an expression may start in the middle of a line
        }
        start = prefix.len();
        source = prefix + &source;
    }
    Case {
        source,
        mode: prog.mode,
        expect_valid,
        constructs: prog.constructs,
        start,
        align: if r.chance(1, 2) { r.below(8) as u8 } else { 0 },
    }
}

// ------------------------------------------------------------------------------------------
// execution

fn sr_tuple(r: &SourceRange) -> ((u32, u32), Option<(u32, u32)>) {
    (
        (r.start.row.get(), r.start.column.get()),
        r.end.map(|e| (e.row.get(), e.column.get())),
    )
}

fn to_mode(m: PMode) -> Mode {
    match m {
        PMode::Module => Mode::Module,
        PMode::Interactive => Mode::Interactive,
        PMode::Expression => Mode::Expression,
    }
}

/// Innermost node (latest in fold order among the smallest) whose range contains [lo, hi].
fn innermost(ranges: &[TextRange], kinds: &[u32], names: &[String], lo: u32, hi: u32) -> String {
    let mut best: Option<(u32, usize)> = None;
    for (i, r) in ranges.iter().enumerate() {
        let (s, e) = (r.start().to_u32(), r.end().to_u32());
        if s <= lo && hi <= e {
            let len = e - s;
            if best.map_or(true, |(bl, _)| len <= bl) {
                best = Some((len, i));
            }
        }
    }
    match best {
        Some((_, i)) => {
            let k = (kinds[i] & 0xffff) as usize;
            names.get(k).cloned().unwrap_or_else(|| "?".into())
        }
        None => "Top".to_string(),
    }
}

/// Name the place of a backwards `locate` structurally.
///
/// If a node *starts* at the offending offset, that node is the one being located and the
/// culprit is the widest node before it in fold order that is not one of its ancestors and
/// has a boundary where the cursor stood: a sibling the fold visited too early, or a node
/// whose range reaches over what follows it. Otherwise the offending offset is the *end* of a
/// node whose range does not cover one of its own descendants; that node is the culprit.
fn fold_order_site(
    ranges: &[TextRange],
    kinds: &[u32],
    depths: &[u16],
    names: &[String],
    offset: u32,
    cursor: u32,
    len: u32,
) -> (String, String) {
    let kind_of = |i: usize| names.get((kinds[i] & 0xffff) as usize).cloned().unwrap_or_default();
    if let Some(j) = ranges.iter().rposition(|r| r.start().to_u32() == offset) {
        let mut culprit: Option<usize> = None;
        let mut min_depth = depths[j];
        for i in (0..j).rev() {
            if depths[i] < min_depth {
                min_depth = depths[i]; // an ancestor of j
                continue;
            }
            let r = ranges[i];
            if r.end().to_u32() == cursor || r.start().to_u32() == cursor {
                if culprit.map_or(true, |c| r.len() >= ranges[c].len()) {
                    culprit = Some(i);
                }
            }
        }
        if let Some(c) = culprit {
            return (kind_label(names, kinds[c]), kind_of(j));
        }
    }
    // end of a node that does not cover a descendant
    for j in 0..ranges.len() {
        if ranges[j].end().to_u32() != offset {
            continue;
        }
        let mut k = j + 1;
        while k < ranges.len() && depths[k] > depths[j] {
            if ranges[k].end().to_u32() == cursor || ranges[k].start().to_u32() == cursor {
                return (format!("{}/end", kind_label(names, kinds[j])), kind_of(j));
            }
            k += 1;
        }
    }
    (innermost(ranges, kinds, names, offset, cursor.min(len)), "end-of-node".to_string())
}

pub fn execute(case: &Case, stats: &mut Stats) -> Outcome {
    let mut non_extent: Option<(usize, String)> = None;
    let mut out = execute_inner(case, stats, &mut non_extent);
    // (an out-of-order visit is decided by the offsets alone and keeps its own class)
    let rooted_elsewhere = out.violation.as_ref().is_some_and(|v| v.class == "fold-order" || v.class == "bom-offset0");
    if let (Some(v), Some((o, site)), false) = (out.violation.as_mut(), non_extent, rooted_elsewhere) {
        // The tree contains a range boundary that is no position of the source (between CR and
        // LF, or inside a multi-byte character): whatever went wrong downstream is rooted there.
        {
            v.detail = format!(
                "the parsed tree has a node boundary at byte {o}, which is {} — then: [{}@{}] {}",
                if o < case.source.len() && case.source.is_char_boundary(o) { "between the CR and the LF of one line break" } else { "inside a multi-byte character (or past the end)" },
                v.class, v.site, v.detail
            );
            v.class = "range-not-a-source-extent".to_string();
            v.site = format!(
                "{site}/{}",
                if o < case.source.len() && case.source.is_char_boundary(o) { "inside-crlf" } else { "inside-char" }
            );
            v.step = 0;
        }
    }
    out
}

fn execute_inner(case: &Case, stats: &mut Stats, non_extent: &mut Option<(usize, String)>) -> Outcome {
    let mut buf = String::with_capacity(case.source.len() + 8);
    for _ in 0..case.align {
        buf.push('#');
    }
    buf.push_str(&case.source);
    let src: &str = &buf[case.align as usize..];
    if case.align > 0 {
        stats.bump(C::fault_unaligned_text_address as usize);
    }
    let mut dg = Digest::default();
    dg.str(src);
    dg.byte(case.mode as u8);
    dg.word(case.start as u64);
    dg.byte(case.align);
    let done = |dg: Digest, steps: u64, violation: Option<Violation>| Outcome {
        digest: dg.0,
        steps,
        violation,
        harness_error: None,
    };
    let has_bom = src.starts_with(model::BOM);
    let start = if case.start <= src.len() && src.is_char_boundary(case.start) { case.start } else { 0 };
    if start > 0 {
        stats.bump(C::fault_parsed_from_an_offset as usize);
    }
    let parsed = guarded(|| {
        if start == 0 {
            parse(src, to_mode(case.mode), "<sim>")
        } else {
            parse_starts_at(&src[start..], to_mode(case.mode), "<sim>", TextSize::new(start as u32))
        }
    });
    let parsed = match parsed {
        Ok(p) => p,
        Err(_) => {
            // a parser panic is C03's business, not C13's: count as "rejected"
            stats.bump(C::programs_composed_but_rejected as usize);
            return done(dg, 0, None);
        }
    };
    let tree = match parsed {
        Err(err) => {
            // ------------------------------------------------------------ error path
            if case.expect_valid {
                stats.bump(C::programs_composed_but_rejected as usize);
            } else {
                stats.bump(C::programs_broken_on_purpose as usize);
            }
            let o = err.offset.to_u32() as usize;
            dg.word(o as u64);
            if o > src.len() || !src.is_char_boundary(o) {
                stats.bump(C::error_offset_not_on_char_boundary as usize);
                return done(dg, 1, None);
            }
            stats.bump(C::error_path_conversions as usize);
            let want = model::row_col(src, o);
            let zero_bom = has_bom && o < 3;
            let mk = || rustpython_parser_core::BaseError {
                error: format!("{}", err.error),
                offset: TextSize::new(o as u32),
                source_path: "<sim>".to_string(),
            };
            let lin: Result<LocatedError<String>, String> = guarded(|| LinearLocator::new(src).locate_error(mk()));
            let rnd: Result<LocatedError<String>, String> = guarded(|| RandomLocator::new(src).locate_error(mk()));
            let site = if zero_bom { "ErrorBeforeBom" } else { "Error" };
            let tup = |e: &LocatedError<String>| e.location.map(|l| (l.row.get(), l.column.get()));
            let v = match (&lin, &rnd) {
                (Err(p), _) => Some((
                    if zero_bom { "bom-offset0".to_string() } else { format!("panic:{}", panic_class(p)) },
                    format!("LinearLocator::locate_error panicked for error offset {o}: {p}"),
                )),
                (_, Err(p)) => Some((
                    format!("panic:{}", panic_class(p)),
                    format!("RandomLocator::locate_error panicked for error offset {o}: {p}"),
                )),
                (Ok(l), Ok(r)) => {
                    if tup(l) != Some(want) || tup(r) != Some(want) {
                        Some((
                            if zero_bom { "bom-offset0".to_string() } else { "error-conversion".to_string() },
                            format!("error offset {o}: linear {:?}, random {:?}, model {:?}", tup(l), tup(r), want),
                        ))
                    } else {
                        None
                    }
                }
            };
            return done(
                dg,
                1,
                v.map(|(class, detail)| Violation {
                    class,
                    site: site.to_string(),
                    step: 0,
                    detail,
                }),
            );
        }
        Ok(t) => t,
    };
    stats.bump(C::programs_parsed as usize);
    if case.expect_valid {
        stats.bump(C::programs_composed_valid as usize);
    } else {
        stats.bump(C::programs_broken_but_still_valid as usize);
    }

    // -------------------------------------------------------------------- the three folds
    let mut c0 = Collector::<TextRange>::new();
    let _ = c0.fold(tree.clone());
    let (ranges, kinds, names, in_fstring, depths) = c0.finish(true);
    dg.word(ranges.len() as u64);

    // ranges that are no source extent (the parser's business, C02): remember the first
    // boundary inside a multi-byte character, else the first one between a CR and its LF
    {
        let mut in_crlf: Option<(usize, String)> = None;
        let mut in_char: Option<(usize, String)> = None;
        for (i, r) in ranges.iter().enumerate() {
            for o in [r.start().to_usize(), r.end().to_usize()] {
                let site = || {
                    if in_fstring[i] {
                        "fstring-field".to_string()
                    } else {
                        kind_label(&names, kinds[i])
                    }
                };
                if o > src.len() || !src.is_char_boundary(o) {
                    if in_char.is_none() {
                        in_char = Some((o.min(src.len()), site()));
                    }
                } else if model::inside_crlf(src, o) && in_crlf.is_none() {
                    in_crlf = Some((o, site()));
                }
            }
        }
        *non_extent = in_char.or(in_crlf);
        if non_extent.is_some() {
            stats.bump(C::trees_with_a_range_that_is_no_source_extent as usize);
        }
    }

    let rnd_tree = guarded(|| RandomLocator::new(src).fold(tree.clone()).unwrap());
    verif_hooks::start_recording();
    let lin_tree = guarded(|| LinearLocator::new(src).fold(tree.clone()).unwrap());
    let history = verif_hooks::take_recording();

    // reach statistics
    for c in &case.constructs {
        stats.note("constructs", c);
    }
    if has_bom {
        stats.bump(C::probe_bom_program as usize);
    }
    if src.contains("\r\n") {
        stats.bump(C::probe_crlf_program as usize);
    } else if src.contains('\r') {
        stats.bump(C::probe_cr_program as usize);
    }
    if !src.is_ascii() {
        stats.bump(C::probe_nonascii_program as usize);
    }
    match case.mode {
        PMode::Expression => stats.bump(C::probe_mode_expression as usize),
        PMode::Interactive => stats.bump(C::probe_mode_interactive as usize),
        _ => {}
    }
    let table = model::RowTable::new(src);
    let row_of = |o: usize| table.row_of(o);
    for h in &history {
        match h.kind {
            CallKind::Locate => stats.bump(C::locate_calls as usize),
            CallKind::LocateOnly => {
                stats.bump(C::locate_only_calls as usize);
                if (h.offset as usize) <= src.len() && row_of(h.offset as usize) > row_of((h.cursor_before as usize).min(src.len())) {
                    stats.bump(C::probe_lookahead_across_lines as usize);
                }
            }
        }
    }
    let mut multiline = false;
    for (r, k) in ranges.iter().zip(kinds.iter()) {
        stats.bump(C::nodes_located as usize);
        let (s, e) = (r.start().to_usize(), r.end().to_usize());
        if e <= src.len() && row_of(s) != row_of(e) {
            stats.bump(C::nodes_spanning_lines as usize);
            multiline = true;
            let kn = names.get((k & 0xffff) as usize).map(String::as_str).unwrap_or("?");
            stats.note("node_kinds_spanning_lines", kn);
        }
        let kn = names.get((k & 0xffff) as usize).map(String::as_str).unwrap_or("?");
        stats.note("node_kinds", kn);
    }
    if multiline {
        stats.bump(C::probe_multiline_program as usize);
        for c in &case.constructs {
            stats.note("constructs_in_multiline_programs", c);
            match *c {
                "call-keyword-before-starred" => stats.bump(C::probe_keyword_before_starred_arg_multiline as usize),
                "class-keyword-before-starred-base" => stats.bump(C::probe_class_keyword_before_starred_base as usize),
                "string-concat" => stats.bump(C::probe_fstring_concat as usize),
                "dict-unpack" => stats.bump(C::probe_dict_unpack as usize),
                "ifexp" => stats.bump(C::probe_ifexp as usize),
                "decorator" => stats.bump(C::probe_decorator as usize),
                "match-mapping" => stats.bump(C::probe_match_mapping as usize),
                _ => {}
            }
        }
    }
    if multiline || !src.is_ascii() {
        stats.note_distinct(dg.0);
    }
    let steps = ranges.len() as u64;

    // ------------------------------------------------------------------ history check
    // (done first: it names the defect structurally in debug and release builds alike)
    for (i, h) in history.iter().enumerate() {
        if h.kind == CallKind::Locate && h.offset < h.cursor_before {
            let before_bom = has_bom && h.offset < 3 && h.cursor_before <= 3;
            let (class, site, at) = if before_bom {
                ("bom-offset0".to_string(), "NodeBeforeBom".to_string(), "first".to_string())
            } else {
                let (encl, at) = fold_order_site(&ranges, &kinds, &depths, &names, h.offset, h.cursor_before, src.len() as u32);
                ("fold-order".to_string(), encl, at)
            };
            return done(
                dg,
                steps,
                Some(Violation {
                    class,
                    site,
                    step: i,
                    detail: format!(
                        "linear fold called locate({}) for a {at} node with the cursor already at {} (call #{i} of {}); a debug build aborts here, a release build may return a wrong row/column",
                        h.offset,
                        h.cursor_before,
                        history.len()
                    ),
                }),
            );
        }
    }
    let lin_tree = match lin_tree {
        Ok(t) => t,
        Err(p) => {
            let last = history.last();
            let site = match last {
                Some(h) => innermost(&ranges, &kinds, &names, h.offset.min(h.cursor_before), h.offset.max(h.cursor_before).min(src.len() as u32)),
                None => "Top".into(),
            };
            return done(
                dg,
                steps,
                Some(Violation {
                    class: format!("panic:{}", panic_class(&p)),
                    site,
                    step: history.len(),
                    detail: format!("LinearLocator fold panicked: {p}"),
                }),
            );
        }
    };
    let rnd_tree = match rnd_tree {
        Ok(t) => t,
        Err(p) => {
            return done(
                dg,
                steps,
                Some(Violation {
                    class: format!("panic:{}", panic_class(&p)),
                    site: "RandomFold".into(),
                    step: 0,
                    detail: format!("RandomLocator fold panicked: {p}"),
                }),
            );
        }
    };

    // ------------------------------------------------------- accessors of the located trees
    for (which, t) in [("linear", &lin_tree), ("random", &rnd_tree)] {
        let mut chk = LocatedChecker {
            pending: None,
            idx: 0,
            checked: 0,
            bad: None,
        };
        let _ = chk.fold(t.clone());
        stats.add(C::located_accessor_reads as usize, chk.checked);
        if let Some((i, what)) = chk.bad {
            return done(
                dg,
                steps,
                Some(Violation {
                    class: "located-accessor".into(),
                    site: kinds.get(i).map(|k| kind_label(&names, *k)).unwrap_or_else(|| "?".into()),
                    step: i,
                    detail: format!("{which} tree, node #{i}: {what}"),
                }),
            );
        }
    }

    // ------------------------------------------------------------ node-by-node comparison
    let mut cl = Collector::<SourceRange>::new();
    let _ = cl.fold(lin_tree);
    let (lin_items, _, _, _, _) = cl.finish(false);
    let mut cr = Collector::<SourceRange>::new();
    let _ = cr.fold(rnd_tree);
    let (rnd_items, _, _, _, _) = cr.finish(false);
    if lin_items.len() != ranges.len() || rnd_items.len() != ranges.len() {
        return done(
            dg,
            steps,
            Some(Violation {
                class: "shape".into(),
                site: "Tree".into(),
                step: 0,
                detail: format!(
                    "located trees have {} / {} ranged nodes, the parsed tree {}",
                    lin_items.len(),
                    rnd_items.len(),
                    ranges.len()
                ),
            }),
        );
    }
    for i in 0..ranges.len() {
        let (s, e) = (ranges[i].start().to_usize(), ranges[i].end().to_usize());
        if e > src.len() || !src.is_char_boundary(s) || !src.is_char_boundary(e) {
            // a node range that is not a source extent is C02's business
            continue;
        }
        let want = (table.row_col(s), Some(table.row_col(e)));
        let l = sr_tuple(&lin_items[i]);
        let r = sr_tuple(&rnd_items[i]);
        dg.word(((want.0 .0 as u64) << 32) | want.0 .1 as u64);
        if l != want || r != want {
            let label = kind_label(&names, kinds[i]);
            let class = if r != want {
                "random-mismatch"
            } else if has_bom && s < 3 {
                "bom-offset0"
            } else {
                "linear-mismatch"
            };
            return done(
                dg,
                steps,
                Some(Violation {
                    class: class.to_string(),
                    site: label,
                    step: i,
                    detail: format!(
                        "node #{i} range {s}..{e} {:?}: linear {:?}, random {:?}, model {:?}",
                        src[s..e].chars().take(24).collect::<String>(),
                        l,
                        r,
                        want
                    ),
                }),
            );
        }
    }
    // ------------------------------------------ incremental use: one locator, statement by statement
    // A caller may keep ONE linear locator alive and fold the top-level statements one at a time
    // as it goes (non-decreasing offsets, so within the contract). The concatenated results must
    // be what folding the whole module gives.
    if let ast::Mod::Module(m) = &tree {
        if m.body.len() > 1 {
            stats.bump(C::fault_statementwise_fold as usize);
            let per_stmt = guarded(|| {
                let mut lin = LinearLocator::new(src);
                let mut items: Vec<SourceRange> = Vec::new();
                for stmt in m.body.iter().cloned() {
                    let located = lin.fold(stmt).unwrap();
                    let mut c = Collector::<SourceRange>::new();
                    let _ = c.fold(located);
                    items.extend(c.finish(false).0);
                }
                items
            });
            // with all-nodes-with-ranges the module node itself comes first in `lin_items`
            let skip = lin_items.len().saturating_sub(per_stmt.as_ref().map_or(0, |v| v.len()));
            match per_stmt {
                Err(p) => {
                    return done(
                        dg,
                        steps,
                        Some(Violation {
                            class: format!("panic:{}", panic_class(&p)),
                            site: "StatementwiseFold".into(),
                            step: 0,
                            detail: format!("folding the statements one by one with one LinearLocator panicked: {p}"),
                        }),
                    );
                }
                Ok(items) => {
                    for (i, it) in items.iter().enumerate() {
                        if sr_tuple(it) != sr_tuple(&lin_items[i + skip]) {
                            return done(
                                dg,
                                steps,
                                Some(Violation {
                                    class: "statementwise-mismatch".into(),
                                    site: kind_label(&names, kinds[i + skip]),
                                    step: i,
                                    detail: format!(
                                        "node #{}: folded statement by statement {:?}, folded as a module {:?}",
                                        i + skip,
                                        sr_tuple(it),
                                        sr_tuple(&lin_items[i + skip])
                                    ),
                                }),
                            );
                        }
                    }
                }
            }
        }
    }
    // ----------------------------------------- incremental use with gaps: a subset of the statements
    // The same long-lived locator, but only some of the statements are folded (a caller that is
    // interested in the definitions only, say): the cursor has to jump over the others.
    if let ast::Mod::Module(m) = &tree {
        if m.body.len() > 2 {
            let pick = dg.0; // a fixed function of the program: which statements are skipped
            let chosen: Vec<usize> = (0..m.body.len()).filter(|i| (pick >> (i % 61)) & 1 == 1).collect();
            if !chosen.is_empty() && chosen.len() < m.body.len() {
                stats.bump(C::fault_subset_of_statements_fold as usize);
                let r = guarded(|| {
                    let mut lin = LinearLocator::new(src);
                    let mut rnd = RandomLocator::new(src);
                    for &i in &chosen {
                        let a = lin.fold(m.body[i].clone()).unwrap();
                        let b = rnd.fold(m.body[i].clone()).unwrap();
                        let mut ca = Collector::<SourceRange>::new();
                        let _ = ca.fold(a);
                        let mut cb = Collector::<SourceRange>::new();
                        let _ = cb.fold(b);
                        let (ia, ib) = (ca.finish(false).0, cb.finish(false).0);
                        if ia.len() != ib.len() {
                            return Some((i, 0usize, "different number of located nodes".to_string()));
                        }
                        for (k, (x, y)) in ia.iter().zip(ib.iter()).enumerate() {
                            if sr_tuple(x) != sr_tuple(y) {
                                return Some((i, k, format!("linear {:?}, random {:?}", sr_tuple(x), sr_tuple(y))));
                            }
                        }
                    }
                    None
                });
                match r {
                    Err(p) => {
                        return done(
                            dg,
                            steps,
                            Some(Violation {
                                class: format!("panic:{}", panic_class(&p)),
                                site: "SubsetFold".into(),
                                step: 0,
                                detail: format!("folding statements {:?} with one LinearLocator panicked: {p}", chosen),
                            }),
                        );
                    }
                    Ok(Some((i, k, what))) => {
                        return done(
                            dg,
                            steps,
                            Some(Violation {
                                class: "subset-fold-mismatch".into(),
                                site: "SubsetFold".into(),
                                step: i,
                                detail: format!("statements {:?} folded with one LinearLocator: statement {i}, node {k}: {what}", chosen),
                            }),
                        );
                    }
                    Ok(None) => {}
                }
            }
        }
    }
    done(dg, steps, None)
}

// ------------------------------------------------------------------------------------------
// shrinking, JSON

fn split_keep_eol(s: &str) -> Vec<String> {
    let mut out = Vec::new();
    for l in model::split_lines(s) {
        out.push(s[l.start..l.full_end].to_string());
    }
    out
}

pub fn shrink(case: &Case) -> Vec<Case> {
    let mut out = Vec::new();
    if case.start > 0 {
        // drop the prefix altogether, or shrink the prefix only (whole lines), first
        let (prefix, prog) = case.source.split_at(case.start);
        let inner = Case {
            source: prog.to_string(),
            mode: case.mode,
            expect_valid: false,
            constructs: Vec::new(),
            start: 0,
            align: case.align,
        };
        let mut v = vec![inner.clone()];
        let plines = split_keep_eol(prefix);
        for rem in chunk_removals(&plines) {
            let p2: String = rem.concat();
            v.push(Case {
                source: format!("{p2}{prog}"),
                start: p2.len(),
                ..inner.clone()
            });
        }
        // then shrink the program part with the prefix kept
        for c in shrink(&inner) {
            v.push(Case {
                source: format!("{prefix}{}", c.source),
                mode: c.mode,
                start: case.start,
                ..inner.clone()
            });
        }
        return v;
    }
    let mk = |source: String, mode: PMode| Case {
        source,
        mode,
        expect_valid: false,
        constructs: Vec::new(),
        start: 0,
        align: case.align,
    };
    // whole lines
    let lines = split_keep_eol(&case.source);
    if lines.len() > 1 {
        for rem in chunk_removals(&lines) {
            out.push(mk(rem.concat(), case.mode));
        }
    }
    // balanced bracket groups and comma-separated items: try deleting "(...)" / "[...]" /
    // "{...}" contents and single items
    let chars: Vec<char> = case.source.chars().collect();
    if chars.len() <= 400 {
        for rem in chunk_removals(&chars) {
            out.push(mk(rem.into_iter().collect(), case.mode));
        }
    } else {
        // too long for per-character ddmin: windows of 1/8th .. 8 chars
        let mut size = chars.len() / 2;
        while size >= 8 {
            let mut st = 0;
            while st < chars.len() {
                let en = (st + size).min(chars.len());
                let mut v: Vec<char> = chars[..st].to_vec();
                v.extend_from_slice(&chars[en..]);
                out.push(mk(v.into_iter().collect(), case.mode));
                st = en;
            }
            size /= 2;
        }
    }
    // sliding windows: a sub-expression in the middle of a line is rarely chunk-aligned
    if chars.len() <= 300 {
        for size in [16usize, 12, 10, 8, 6, 5, 4, 3, 2] {
            if size >= chars.len() {
                continue;
            }
            for st in 0..=(chars.len() - size) {
                let mut v: Vec<char> = chars[..st].to_vec();
                v.extend_from_slice(&chars[st + size..]);
                out.push(mk(v.into_iter().collect(), case.mode));
            }
        }
    }
    // canonicalise: CRLF/CR -> LF, non-ASCII -> 'a', drop BOM, comments
    if case.source.contains('\r') {
        out.push(mk(case.source.replace("\r\n", "\n").replace('\r', "\n"), case.mode));
    }
    for (i, c) in chars.iter().enumerate().take(if chars.len() <= 4000 { usize::MAX } else { 0 }) {
        if !c.is_ascii() && *c != model::BOM {
            let mut v = chars.clone();
            v[i] = 'a';
            out.push(mk(v.into_iter().collect(), case.mode));
        }
    }
    if case.mode != PMode::Module {
        out.push(mk(case.source.clone(), PMode::Module));
    }
    if case.align > 0 {
        let mut c = mk(case.source.clone(), case.mode);
        c.align = 0;
        out.push(c);
    }
    out
}

pub fn case_size(case: &Case) -> usize {
    case.source.len() * 1000
        + case.source.chars().filter(|c| !c.is_ascii() || *c == '\r').count() * 10
        + (case.mode != PMode::Module) as usize
        + (case.start > 0) as usize * 50
        + case.align as usize * 2
}

pub fn case_to_json(case: &Case) -> J {
    obj(vec![
        ("source", case.source.as_str().into()),
        (
            "mode",
            match case.mode {
                PMode::Module => "module",
                PMode::Interactive => "interactive",
                PMode::Expression => "expression",
            }
            .into(),
        ),
        ("expect_valid", case.expect_valid.into()),
        ("parse_starts_at", case.start.into()),
        ("text_starts_at_buffer_offset", (case.align as u32).into()),
    ])
}

pub fn case_from_json(j: &J) -> Result<Case, String> {
    let source = j.get("source").and_then(J::as_str).ok_or("case.source")?.to_string();
    let mode = match j.get("mode").and_then(J::as_str).unwrap_or("module") {
        "module" => PMode::Module,
        "interactive" => PMode::Interactive,
        "expression" => PMode::Expression,
        m => return Err(format!("unknown mode {m}")),
    };
    Ok(Case {
        source,
        mode,
        expect_valid: j.get("expect_valid").and_then(J::as_bool).unwrap_or(false),
        constructs: Vec::new(),
        start: j.get("parse_starts_at").and_then(J::as_u64).unwrap_or(0) as usize,
        align: j.get("text_starts_at_buffer_offset").and_then(J::as_u64).unwrap_or(0) as u8,
    })
}

pub struct FoldLayer;

impl Layer for FoldLayer {
    type Case = Case;
    fn name(&self) -> &'static str {
        "fold"
    }
    fn property(&self) -> &'static str {
        "C13"
    }
    fn counter_names(&self) -> &'static [&'static str] {
        COUNTER_NAMES
    }
    fn chunk_runs(&self) -> u64 {
        1024
    }
    fn required_probes(&self, config: u64) -> Vec<usize> {
        let mut v = vec![
            C::programs_parsed as usize,
            C::nodes_spanning_lines as usize,
            C::probe_bom_program as usize,
            C::probe_crlf_program as usize,
            C::probe_cr_program as usize,
            C::probe_nonascii_program as usize,
            C::probe_mode_expression as usize,
            C::probe_mode_interactive as usize,
            C::probe_keyword_before_starred_arg_multiline as usize,
            C::probe_fstring_concat as usize,
            C::probe_dict_unpack as usize,
            C::probe_ifexp as usize,
            C::probe_decorator as usize,
            C::probe_match_mapping as usize,
        ];
        if config == 1 {
            v.push(C::error_path_conversions as usize);
            v.push(C::fault_parsed_from_an_offset as usize);
        }
        v
    }
    fn self_check(&self, stats: &Stats) -> Option<String> {
        let ok = stats.counters[C::programs_composed_valid as usize];
        let bad = stats.counters[C::programs_composed_but_rejected as usize];
        // generous on purpose: a parser that has become stricter is not this check's business, the
        // programs it still accepts are located all the same; only a composer that mostly emits
        // garbage is a harness fault (on the unchanged tree the rate is 0)
        if ok + bad >= 200 && bad * 100 > (ok + bad) * 25 {
            Some(format!(
                "the program composer produced {bad} rejected programs out of {} (> 25 %): the workload generator is broken",
                ok + bad
            ))
        } else {
            None
        }
    }
    fn generate(&self, run_seed: u64, config: u64, scale: u32) -> Case {
        generate(run_seed, config, scale)
    }
    fn execute(&self, case: &Case, stats: &mut Stats) -> Outcome {
        execute(case, stats)
    }
    fn shrink(&self, case: &Case) -> Vec<Case> {
        shrink(case)
    }
    fn case_to_json(&self, case: &Case) -> J {
        case_to_json(case)
    }
    fn case_from_json(&self, j: &J) -> Result<Case, String> {
        case_from_json(j)
    }
    fn case_size(&self, case: &Case) -> usize {
        case_size(case)
    }
}

#[allow(dead_code)]
fn _unused(_: &mut Rng) {}
