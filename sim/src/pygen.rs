//! Seeded composer of valid Python programs with randomised *layout*.
//!
//! It is a workload generator, nothing more: it emits constructs the parser is known to
//! accept, biased towards the ones whose tree order differs from their source order (calls
//! with keywords before `*args`, class keywords before starred bases, dict `**` unpacking,
//! conditional expressions, decorators, f-strings, mapping patterns) and it randomises what
//! turns an ordering defect into a wrong row: line breaks after any token inside brackets,
//! LF/CRLF/CR line ends, a leading BOM, backslash continuations, non-ASCII identifiers and
//! string contents, comments, tabs.

use crate::rng::Rng;

#[derive(Clone, Copy, Debug, PartialEq, Eq)]
pub enum Eol {
    Lf,
    CrLf,
    Cr,
    Mixed,
}

pub struct Gen<'r> {
    pub r: &'r mut Rng,
    pub out: String,
    eol: Eol,
    /// > 0 while inside (), [] or {} — line breaks are free there
    bracket: u32,
    /// probability (percent) of a line break at a token gap inside brackets
    p_break: u64,
    /// probability (percent) of non-ASCII names / string contents
    p_unicode: u64,
    /// probability (percent) of a comment before a line break inside brackets
    p_comment: u64,
    /// probability (percent) of a backslash continuation at a gap outside brackets
    p_backslash: u64,
    indent_unit: &'static str,
    max_depth: u32,
    /// what was emitted, for reach statistics
    pub constructs: Vec<&'static str>,
    in_fstring: u32,
    in_lambda_params: u32,
}

const ASCII_NAMES: &[&str] = &["a", "b", "c", "x", "y", "foo", "bar", "n", "k", "v", "w", "obj", "self_"];
const UNI_NAMES: &[&str] = &["é", "ñu", "变量", "π", "über", "名", "данные"];
const ATTRS: &[&str] = &["real", "attr", "m", "é", "items"];

impl<'r> Gen<'r> {
    pub fn new(r: &'r mut Rng) -> Self {
        let eol = *r.pick(&[Eol::Lf, Eol::Lf, Eol::CrLf, Eol::Cr, Eol::Mixed]);
        let p_break = *r.pick(&[0u64, 10, 30, 60]);
        let p_unicode = *r.pick(&[0u64, 10, 40]);
        let p_comment = *r.pick(&[0u64, 10, 30]);
        let p_backslash = *r.pick(&[0u64, 0, 5, 15]);
        let indent_unit = *r.pick(&["    ", "    ", "  ", "\t"]);
        let max_depth = *r.pick(&[1u32, 2, 3, 3]);
        Gen {
            r,
            out: String::new(),
            eol,
            bracket: 0,
            p_break,
            p_unicode,
            p_comment,
            p_backslash,
            indent_unit,
            max_depth,
            constructs: Vec::new(),
            in_fstring: 0,
            in_lambda_params: 0,
        }
    }

    fn emit(&mut self, s: &str) {
        self.out.push_str(s);
    }

    fn eol(&mut self) {
        let e = match self.eol {
            Eol::Lf => "\n",
            Eol::CrLf => "\r\n",
            Eol::Cr => "\r",
            Eol::Mixed => *self.r.pick(&["\n", "\r\n", "\r"]),
        };
        self.out.push_str(e);
    }

    /// A gap between two tokens where whitespace is optional or required (`need`).
    fn gap(&mut self, need: bool) {
        if self.in_fstring > 0 {
            if need {
                self.emit(" ");
            }
            return;
        }
        if self.bracket > 0 && self.in_lambda_params == 0 && self.r.chance(self.p_break, 100) {
            if self.r.chance(self.p_comment, 100) {
                let c = if self.r.chance(self.p_unicode, 100) { " # ü→" } else { " # c" };
                self.emit(c);
            }
            self.eol();
            let n = self.r.below(9);
            for _ in 0..n {
                self.emit(" ");
            }
        } else if self.bracket == 0 && self.in_lambda_params == 0 && self.r.chance(self.p_backslash, 100) {
            self.emit(" \\");
            self.eol();
            let n = self.r.range(1, 6);
            for _ in 0..n {
                self.emit(" ");
            }
        } else if need || self.r.chance(1, 2) {
            self.emit(" ");
        }
    }

    fn open(&mut self, s: &str) {
        self.emit(s);
        self.bracket += 1;
        self.gap(false);
    }
    fn close(&mut self, s: &str) {
        self.gap(false);
        self.bracket -= 1;
        self.emit(s);
    }
    fn comma(&mut self) {
        self.gap(false);
        self.emit(",");
        self.gap(false);
    }

    fn name(&mut self) -> String {
        if self.r.chance(self.p_unicode, 100) {
            self.r.pick::<&str>(UNI_NAMES).to_string()
        } else {
            self.r.pick::<&str>(ASCII_NAMES).to_string()
        }
    }

    fn emit_name(&mut self) {
        let n = self.name();
        self.emit(&n);
    }

    fn number(&mut self) {
        let n = *self.r.pick(&["0", "1", "42", "0x1F", "1.5", "2j", "1_000", "0b101", "1e3"]);
        self.emit(n);
    }

    fn string_body(&mut self) -> String {
        let mut s = String::new();
        for _ in 0..self.r.below(4) {
            let p = if self.r.chance(self.p_unicode, 100) {
                *self.r.pick(&["é", "→", "😀", "ü"])
            } else {
                *self.r.pick(&["a", "bc", " ", "\\n", "\\\\", "x1", "\\x41", "%s"])
            };
            s.push_str(p);
        }
        s
    }

    fn plain_string(&mut self, bytes: Option<bool>) {
        let body = self.string_body();
        let style = match bytes {
            Some(true) => 0,
            Some(false) => self.r.range(1, 9),
            None => self.r.below(10),
        };
        match style {
            0 => {
                let p = *self.r.pick(&["b'", "b'", "B'", "rb'", "Rb'", "bR'"]);
                let raw = p.len() > 2;
                self.emit(p);
                if raw {
                    let b: String = body.chars().filter(|c| c.is_ascii() && *c != '\\').collect();
                    self.emit(&b);
                    self.emit("'");
                    return;
                }
                self.emit("");
                let b: String = body.chars().filter(|c| c.is_ascii()).collect();
                self.emit(&b);
                self.emit("'");
            }
            1 => {
                self.emit("r\"");
                let b: String = body.replace('\\', "");
                self.emit(&b);
                self.emit("\"");
            }
            2 if self.in_fstring == 0 => {
                // triple-quoted, possibly spanning lines
                let q = *self.r.pick(&["'''", "\"\"\""]);
                self.emit(q);
                self.emit(&body);
                if self.r.chance(1, 2) {
                    self.eol();
                    let b2 = self.string_body();
                    self.emit(&b2);
                }
                self.emit(q);
            }
            3 => {
                self.emit("u'");
                self.emit(&body);
                self.emit("'");
            }
            4 if self.in_fstring == 0 => {
                // a line continuation inside a single-quoted string: the literal spans two lines
                self.constructs.push("string-line-continuation");
                let q = *self.r.pick(&["'", "\""]);
                self.emit(q);
                self.emit(&body);
                self.emit("\\");
                self.eol();
                let b2 = self.string_body();
                self.emit(&b2);
                self.emit(q);
            }
            5 => {
                let p = *self.r.pick(&["R", "U", "u", "r"]);
                self.emit(p);
                self.emit("'");
                let b: String = body.replace('\\', "");
                self.emit(&b);
                self.emit("'");
            }
            _ => {
                let q = if self.in_fstring > 0 { "\"" } else { *self.r.pick(&["'", "\""]) };
                self.emit(q);
                self.emit(&body);
                self.emit(q);
            }
        }
    }

    /// One f-string token (no implicit concatenation).
    fn fstring_token(&mut self, depth: u32) {
        self.constructs.push("fstring");
        let triple = self.in_fstring == 0 && self.r.chance(1, 4);
        let raw = self.r.chance(1, 8);
        let q = if triple {
            *self.r.pick(&["'''", "\"\"\""])
        } else if self.in_fstring > 0 {
            "\""
        } else {
            "'"
        };
        self.emit(if raw { "rf" } else { "f" });
        self.emit(q);
        let parts = self.r.range(0, 4);
        for _ in 0..parts {
            match self.r.below(10) {
                0..=2 => {
                    let lit = if self.r.chance(self.p_unicode, 100) {
                        *self.r.pick(&["é", "→😀", "ü "])
                    } else {
                        *self.r.pick(&["a", "bc ", "{{", "}}", " = ", "x"])
                    };
                    self.emit(lit);
                    if triple && self.r.chance(1, 3) {
                        self.eol();
                        self.constructs.push("fstring-multiline");
                    } else if !triple && !raw && self.in_fstring == 0 && self.r.chance(1, 6) {
                        // a line continuation inside the literal text of a single-quoted f-string
                        self.emit("\\");
                        self.eol();
                        self.constructs.push("fstring-line-continuation");
                    }
                }
                _ => {
                    self.emit("{");
                    self.in_fstring += 1;
                    let saved = self.bracket;
                    // expressions inside a replacement field: no quotes of the enclosing kind,
                    // no backslashes, no line breaks (single-quoted) — keep to simple shapes
                    self.fstring_expr(depth + 1);
                    self.bracket = saved;
                    self.in_fstring -= 1;
                    if self.r.chance(1, 6) {
                        self.emit("=");
                        self.constructs.push("fstring-selfdoc");
                    }
                    if self.r.chance(1, 4) {
                        let c = *self.r.pick(&["!r", "!s", "!a"]);
                        self.emit(c);
                    }
                    if self.r.chance(1, 3) {
                        self.emit(":");
                        let spec = *self.r.pick(&[">10", "", "x", ".2f", "<"]);
                        self.emit(spec);
                        if self.r.chance(1, 2) {
                            self.constructs.push("fstring-nested-spec");
                            self.emit("{");
                            self.emit_ascii_name();
                            self.emit("}");
                        }
                    }
                    self.emit("}");
                }
            }
        }
        self.emit(q);
    }

    fn emit_ascii_name(&mut self) {
        let n = self.r.pick::<&str>(ASCII_NAMES).to_string();
        self.emit(&n);
    }

    fn fstring_expr(&mut self, depth: u32) {
        match self.r.below(8) {
            0 | 1 => self.emit_name(),
            2 => {
                self.emit_name();
                self.emit(".");
                let a = *self.r.pick::<&str>(ATTRS);
                self.emit(a);
            }
            3 => {
                self.emit_name();
                self.emit("[");
                self.number();
                self.emit("]");
            }
            4 => {
                self.emit_name();
                self.emit(" + ");
                self.number();
            }
            5 if depth < 3 => {
                // call with keyword before starred argument, on one line
                self.emit_name();
                self.emit("(");
                self.emit_ascii_name();
                self.emit("=");
                self.number();
                self.emit(", *");
                self.emit_name();
                self.emit(")");
            }
            6 if self.in_fstring == 1 => {
                // nested f-string with the other quote kind
                self.fstring_token(depth + 1);
            }
            _ => {
                self.emit("(");
                self.emit_name();
                self.emit(" if ");
                self.emit_name();
                self.emit(" else ");
                self.number();
                self.emit(")");
            }
        }
    }

    /// A string atom: plain, f-string, or an implicit concatenation of both kinds.
    fn string_atom(&mut self, depth: u32) {
        let n = if self.in_fstring > 0 { 1 } else { *self.r.pick(&[1u64, 1, 1, 2, 3]) };
        if n > 1 {
            self.constructs.push("string-concat");
        }
        // 0 = str and f-strings, 1 = bytes only, 2 = plain str only
        let kind = *self.r.pick(&[0u8, 0, 0, 1, 2]);
        for i in 0..n {
            if i > 0 {
                self.gap(true);
            }
            match kind {
                0 if self.r.chance(2, 3) => self.fstring_token(depth),
                1 => self.plain_string(Some(true)),
                _ => self.plain_string(Some(false)),
            }
        }
    }

    fn atom(&mut self, depth: u32) {
        match self.r.below(10) {
            0..=3 => self.emit_name(),
            4 | 5 => self.number(),
            6 => {
                let c = *self.r.pick(&["None", "True", "False", "..."]);
                self.emit(c);
            }
            _ => self.string_atom(depth),
        }
    }

    pub fn expr(&mut self, depth: u32) {
        if depth >= self.max_depth || self.in_fstring > 0 {
            self.atom(depth);
            return;
        }
        let d = depth + 1;
        match self.r.below(40) {
            0..=5 => self.atom(depth),
            6..=11 => self.call(d),
            12 | 13 => self.dict(d),
            14 | 15 => self.ifexp(d),
            16 => {
                self.constructs.push("list");
                self.open("[");
                self.expr_list(d, true);
                self.close("]");
            }
            17 => {
                self.constructs.push("tuple");
                self.open("(");
                self.expr(d);
                self.comma();
                if self.r.chance(1, 2) {
                    self.expr(d);
                }
                self.close(")");
            }
            18 => {
                self.constructs.push("set");
                self.open("{");
                self.expr(d);
                if self.r.chance(1, 2) {
                    self.comma();
                    self.emit("*");
                    self.atom(d);
                }
                self.close("}");
            }
            19 | 20 => {
                self.constructs.push("binop");
                self.expr_operand(d);
                self.gap(true);
                let op = *self.r.pick(&["+", "-", "*", "/", "//", "%", "**", "@", "<<", "|", "&", "^"]);
                self.emit(op);
                self.gap(true);
                self.expr_operand(d);
            }
            21 => {
                self.constructs.push("boolop");
                self.expr_operand(d);
                let op = *self.r.pick(&["and", "or"]);
                for _ in 0..self.r.range(1, 2) {
                    self.gap(true);
                    self.emit(op);
                    self.gap(true);
                    self.expr_operand(d);
                }
            }
            22 => {
                self.constructs.push("compare");
                self.expr_operand(d);
                for _ in 0..self.r.range(1, 2) {
                    self.gap(true);
                    let op = *self.r.pick(&["<", "<=", "==", "!=", "in", "not in", "is", "is not", ">"]);
                    self.emit(op);
                    self.gap(true);
                    self.expr_operand(d);
                }
            }
            23 => {
                self.constructs.push("unary");
                let op = *self.r.pick(&["-", "+", "~", "not "]);
                self.emit(op);
                self.expr_operand(d);
            }
            24 | 25 => {
                self.constructs.push("attribute");
                match self.r.below(3) {
                    0 => self.emit_name(),
                    1 => self.call(d),
                    _ => {
                        self.open("(");
                        self.expr(d);
                        self.close(")");
                    }
                }
                self.emit(".");
                let a = *self.r.pick::<&str>(ATTRS);
                self.emit(a);
            }
            26 | 27 => self.subscript(d),
            28 => self.lambda(d),
            29 | 30 => self.comprehension(d),
            31 => {
                self.constructs.push("walrus");
                self.open("(");
                self.emit_name();
                self.gap(true);
                self.emit(":=");
                self.gap(true);
                self.expr(d);
                self.close(")");
            }
            32 => {
                self.constructs.push("yield");
                self.open("(");
                if self.r.chance(1, 3) {
                    self.emit("yield from");
                } else {
                    self.emit("yield");
                }
                self.gap(true);
                self.expr(d);
                self.close(")");
            }
            33 => {
                self.constructs.push("await");
                self.open("(");
                self.emit("await");
                self.gap(true);
                self.expr_operand(d);
                self.close(")");
            }
            34 => {
                self.constructs.push("paren");
                self.open("(");
                self.expr(d);
                self.close(")");
            }
            _ => self.call(d),
        }
    }

    /// An operand: an expression that binds tighter than any operator (atom or bracketed).
    fn expr_operand(&mut self, depth: u32) {
        if depth >= self.max_depth || self.r.chance(1, 2) {
            match self.r.below(4) {
                0 | 1 => self.emit_name(),
                2 => self.number(),
                _ => self.atom(depth),
            }
        } else {
            match self.r.below(4) {
                0 => self.call(depth + 1),
                1 => {
                    self.open("(");
                    self.expr(depth + 1);
                    self.close(")");
                }
                2 => self.subscript(depth + 1),
                _ => {
                    self.open("[");
                    self.expr_list(depth + 1, false);
                    self.close("]");
                }
            }
        }
    }

    fn expr_list(&mut self, depth: u32, starred: bool) {
        let n = self.r.below(4);
        for i in 0..n {
            if i > 0 {
                self.comma();
            }
            if starred && self.r.chance(1, 5) {
                self.emit("*");
                self.expr_operand(depth);
            } else {
                self.expr(depth);
            }
        }
        if n > 0 && self.r.chance(1, 4) {
            self.comma();
        }
    }

    fn call(&mut self, depth: u32) {
        self.constructs.push("call");
        // callee
        match self.r.below(4) {
            0 => {
                self.emit_name();
                self.emit(".");
                let a = *self.r.pick::<&str>(ATTRS);
                self.emit(a);
            }
            _ => self.emit_name(),
        }
        self.open("(");
        // argument plan: positional*, then a mix of keywords and *starred, then **kw / keywords
        let mut items: Vec<u8> = Vec::new(); // 0 positional, 1 keyword, 2 *starred, 3 **kw
        for _ in 0..self.r.below(3) {
            items.push(0);
        }
        for _ in 0..self.r.below(4) {
            items.push(*self.r.pick(&[1u8, 1, 2]));
        }
        for _ in 0..self.r.below(3) {
            items.push(*self.r.pick(&[1u8, 3]));
        }
        let kw_before_star = items.iter().position(|&x| x == 1).zip(items.iter().rposition(|&x| x == 2)).is_some_and(|(k, s)| k < s);
        if kw_before_star {
            self.constructs.push("call-keyword-before-starred");
        }
        if items.contains(&3) {
            self.constructs.push("call-double-star");
        }
        let n = items.len();
        for (i, it) in items.into_iter().enumerate() {
            if i > 0 {
                self.comma();
            }
            match it {
                0 => self.expr(depth),
                1 => {
                    self.emit_name();
                    self.emit(&format!("{i}"));
                    self.gap(false);
                    self.emit("=");
                    self.gap(false);
                    self.expr(depth);
                }
                2 => {
                    self.emit("*");
                    self.expr_operand(depth);
                }
                _ => {
                    self.emit("**");
                    self.expr_operand(depth);
                }
            }
        }
        if n > 0 && self.r.chance(1, 5) {
            self.comma();
        }
        self.close(")");
        // method / call chains: a(b).c(d)[e](f) — later links start after earlier ones end
        if depth <= self.max_depth && self.r.chance(1, 6) {
            self.constructs.push("call-chain");
            match self.r.below(3) {
                0 => {
                    self.gap(false);
                    self.emit(".");
                    let a = *self.r.pick::<&str>(ATTRS);
                    self.emit(a);
                    self.open("(");
                    if self.r.chance(1, 2) {
                        self.emit_ascii_name();
                        self.emit("_k");
                        self.gap(false);
                        self.emit("=");
                        self.gap(false);
                        self.expr_operand(depth + 1);
                        self.comma();
                        self.emit("*");
                        self.emit_name();
                    }
                    self.close(")");
                }
                1 => {
                    self.open("(");
                    self.expr_operand(depth + 1);
                    self.close(")");
                }
                _ => {
                    self.open("[");
                    self.expr_operand(depth + 1);
                    self.close("]");
                }
            }
        }
    }

    fn dict(&mut self, depth: u32) {
        self.constructs.push("dict");
        self.open("{");
        let n = self.r.below(4);
        for i in 0..n {
            if i > 0 {
                self.comma();
            }
            if self.r.chance(1, 3) {
                self.constructs.push("dict-unpack");
                self.emit("**");
                self.expr_operand(depth);
            } else {
                self.expr(depth);
                self.gap(false);
                self.emit(":");
                self.gap(false);
                self.expr(depth);
            }
        }
        if n > 0 && self.r.chance(1, 4) {
            self.comma();
        }
        self.close("}");
    }

    fn ifexp(&mut self, depth: u32) {
        self.constructs.push("ifexp");
        let paren = self.r.chance(1, 2);
        if paren {
            self.open("(");
        }
        self.expr_operand(depth);
        self.gap(true);
        self.emit("if");
        self.gap(true);
        self.expr_operand(depth);
        self.gap(true);
        self.emit("else");
        self.gap(true);
        self.expr(depth);
        if paren {
            self.close(")");
        }
    }

    fn subscript(&mut self, depth: u32) {
        self.constructs.push("subscript");
        self.emit_name();
        self.open("[");
        match self.r.below(5) {
            0 => self.expr(depth),
            1 => {
                self.constructs.push("slice");
                self.expr_operand(depth);
                self.gap(false);
                self.emit(":");
                self.gap(false);
                self.expr_operand(depth);
            }
            2 => {
                self.constructs.push("slice");
                self.emit(":");
                self.gap(false);
                self.expr_operand(depth);
                self.gap(false);
                self.emit(":");
                self.gap(false);
                self.expr_operand(depth);
            }
            3 => {
                self.constructs.push("slice");
                self.expr_operand(depth);
                self.emit(":");
                self.comma();
                self.emit("::");
                self.number();
            }
            _ => {
                self.expr(depth);
                self.comma();
                self.emit("*");
                self.emit_name();
            }
        }
        self.close("]");
    }

    fn lambda(&mut self, depth: u32) {
        self.constructs.push("lambda");
        let paren = self.r.chance(1, 2);
        if paren {
            self.open("(");
        }
        self.emit("lambda");
        // parameters stay on one line unless inside brackets (where breaks are free anyway)
        let n = self.r.below(4);
        if n > 0 {
            self.emit(" ");
        }
        let saved = self.in_lambda_params;
        if self.bracket == 0 {
            self.in_lambda_params += 1;
        }
        let mut seen_default = false;
        let star_at = if self.r.chance(1, 3) { self.r.below(n.max(1)) } else { 99 };
        for i in 0..n {
            if i > 0 {
                self.comma();
            }
            if i == star_at {
                self.emit("*");
                self.emit_ascii_name();
                self.emit(&format!("{i}"));
                seen_default = false;
                continue;
            }
            self.emit_ascii_name();
            self.emit(&format!("{i}"));
            if seen_default || self.r.chance(1, 3) {
                seen_default = true;
                self.emit("=");
                self.number();
            }
        }
        if self.r.chance(1, 5) {
            // **kwargs, possibly as the only parameter
            if n > 0 {
                self.comma();
            } else {
                self.emit(" ");
            }
            self.emit("**");
            self.emit_ascii_name();
            self.emit("_kw");
        }
        self.in_lambda_params = saved;
        self.emit(":");
        self.gap(true);
        self.expr(depth);
        if paren {
            self.close(")");
        }
    }

    fn comprehension(&mut self, depth: u32) {
        let kind = self.r.below(4);
        let (o, c, name) = match kind {
            0 => ("[", "]", "listcomp"),
            1 => ("{", "}", "setcomp"),
            2 => ("{", "}", "dictcomp"),
            _ => ("(", ")", "genexp"),
        };
        self.constructs.push(name);
        self.open(o);
        self.expr_operand(depth);
        if kind == 2 {
            self.gap(false);
            self.emit(":");
            self.gap(false);
            self.expr_operand(depth);
        }
        for _ in 0..self.r.range(1, 2) {
            self.gap(true);
            if self.r.chance(1, 6) {
                self.emit("async ");
            }
            self.emit("for");
            self.gap(true);
            self.emit_name();
            if self.r.chance(1, 3) {
                self.comma();
                self.emit_name();
            }
            self.gap(true);
            self.emit("in");
            self.gap(true);
            self.expr_operand(depth);
            for _ in 0..self.r.below(2) {
                self.gap(true);
                self.emit("if");
                self.gap(true);
                self.expr_operand(depth);
            }
        }
        self.close(c);
    }

    // ---------------------------------------------------------------------------------
    // statements

    fn ind(&mut self, level: u32) {
        for _ in 0..level {
            let u = self.indent_unit;
            self.emit(u);
        }
    }

    fn end_line(&mut self) {
        if self.r.chance(1, 12) {
            // trailing blanks before the line end
            let pad = *self.r.pick(&[" ", "  ", "\t", "   \t "]);
            self.emit(pad);
        }
        if self.r.chance(self.p_comment, 200) {
            let c = if self.r.chance(self.p_unicode, 100) { "  # é😀" } else { "  # c" };
            self.emit(c);
        }
        self.eol();
    }

    fn block(&mut self, level: u32, depth: u32) {
        self.emit(":");
        if self.r.chance(1, 6) {
            // one-line suite
            self.emit(" ");
            self.simple_stmt(depth, false);
            self.end_line();
            return;
        }
        self.end_line();
        let n = self.r.range(1, 3);
        for _ in 0..n {
            if self.r.chance(1, 10) {
                // blank, whitespace-only or comment-only line inside a block
                match self.r.below(3) {
                    0 => {
                        self.ind(level + 1);
                        self.emit("# note");
                    }
                    1 => {
                        let pad = *self.r.pick(&["   ", "\t", " "]);
                        self.emit(pad);
                    }
                    _ => {}
                }
                self.eol();
            }
            self.stmt(level + 1, depth + 1);
        }
    }

    fn target(&mut self) {
        match self.r.below(6) {
            0..=2 => self.emit_name(),
            3 => {
                self.emit_name();
                self.emit(".");
                let a = *self.r.pick::<&str>(ATTRS);
                self.emit(a);
            }
            4 => {
                self.emit_name();
                self.emit("[");
                self.number();
                self.emit("]");
            }
            _ => {
                self.emit_name();
                self.emit(", ");
                self.emit("*");
                self.emit_name();
            }
        }
    }

    fn simple_stmt(&mut self, depth: u32, line_start: bool) {
        let d = depth;
        match self.r.below(22) {
            0..=3 => {
                self.constructs.push("assign");
                self.target();
                self.gap(true);
                self.emit("=");
                self.gap(true);
                if self.r.chance(1, 5) {
                    self.emit_name();
                    self.emit(" = ");
                }
                self.expr(d);
            }
            4 => {
                self.constructs.push("augassign");
                self.emit_name();
                self.gap(true);
                let op = *self.r.pick(&["+=", "-=", "*=", "//=", "**=", "|=", "@="]);
                self.emit(op);
                self.gap(true);
                self.expr(d);
            }
            5 => {
                self.constructs.push("annassign");
                self.emit_name();
                self.emit(":");
                self.gap(true);
                self.expr_operand(d);
                if self.r.chance(2, 3) {
                    self.gap(true);
                    self.emit("=");
                    self.gap(true);
                    self.expr(d);
                }
            }
            6..=10 => {
                self.constructs.push("exprstmt");
                self.expr(d);
            }
            11 => {
                self.constructs.push("return");
                self.emit("return");
                if self.r.chance(3, 4) {
                    self.gap(true);
                    self.expr(d);
                }
            }
            12 => {
                self.constructs.push("del");
                self.emit("del ");
                self.emit_name();
                if self.r.chance(1, 2) {
                    self.emit(", ");
                    self.emit_name();
                    self.emit("[0]");
                }
            }
            13 => {
                self.constructs.push("assert");
                self.emit("assert");
                self.gap(true);
                self.expr_operand(d);
                if self.r.chance(1, 2) {
                    self.emit(",");
                    self.gap(true);
                    self.expr(d);
                }
            }
            14 => {
                self.constructs.push("raise");
                self.emit("raise");
                if self.r.chance(3, 4) {
                    self.gap(true);
                    self.call(d + 1);
                    if self.r.chance(1, 2) {
                        self.gap(true);
                        self.emit("from");
                        self.gap(true);
                        self.emit_name();
                    }
                }
            }
            15 => {
                self.constructs.push("import");
                self.emit("import ");
                self.emit_ascii_name();
                if self.r.chance(1, 2) {
                    self.emit(".");
                    self.emit_ascii_name();
                }
                if self.r.chance(1, 2) {
                    self.emit(" as ");
                    self.emit_name();
                }
                if self.r.chance(1, 3) {
                    self.emit(", ");
                    self.emit_ascii_name();
                }
            }
            16 => {
                self.constructs.push("importfrom");
                self.emit("from ");
                let dots = *self.r.pick(&["", "", ".", ".."]);
                self.emit(dots);
                self.emit_ascii_name();
                self.emit(" import ");
                if self.r.chance(1, 2) {
                    self.open("(");
                    self.emit_ascii_name();
                    if self.r.chance(1, 2) {
                        self.gap(true);
                        self.emit("as");
                        self.gap(true);
                        self.emit_name();
                    }
                    self.comma();
                    self.emit_ascii_name();
                    if self.r.chance(1, 2) {
                        self.comma();
                    }
                    self.close(")");
                } else if self.r.chance(1, 4) {
                    self.emit("*");
                } else {
                    self.emit_ascii_name();
                    self.emit(" as ");
                    self.emit_name();
                }
            }
            17 => {
                self.constructs.push("global");
                let k = *self.r.pick(&["global ", "nonlocal "]);
                self.emit(k);
                self.emit_name();
                if self.r.chance(1, 2) {
                    self.emit(", ");
                    self.emit_name();
                }
            }
            18 => {
                let k = *self.r.pick(&["pass", "break", "continue"]);
                self.constructs.push("pass");
                self.emit(k);
            }
            19 if line_start => {
                self.constructs.push("typealias");
                self.emit("type ");
                self.emit_ascii_name();
                if self.r.chance(1, 2) {
                    self.type_params();
                }
                self.gap(true);
                self.emit("=");
                self.gap(true);
                self.expr_operand(d);
            }
            _ => {
                self.constructs.push("exprstmt");
                self.call(d + 1);
            }
        }
    }

    fn type_params(&mut self) {
        self.constructs.push("typeparams");
        self.open("[");
        let n = self.r.range(1, 3);
        for i in 0..n {
            if i > 0 {
                self.comma();
            }
            match self.r.below(4) {
                0 => {
                    self.emit("*");
                    self.emit(&format!("Ts{i}"));
                }
                1 => {
                    self.emit("**");
                    self.emit(&format!("P{i}"));
                }
                2 => {
                    self.emit(&format!("T{i}"));
                    self.emit(":");
                    self.gap(true);
                    self.emit_name();
                }
                _ => self.emit(&format!("T{i}")),
            }
        }
        self.close("]");
    }

    fn params(&mut self, depth: u32) {
        self.open("(");
        // plan: posonly [/] normal [*args | *] kwonly [**kw]
        let n_pos = self.r.below(3);
        let n_norm = self.r.below(3);
        let star = self.r.below(3); // 0 none, 1 *args, 2 bare *
        let n_kw = if star > 0 { self.r.range(if star == 2 { 1 } else { 0 }, 2) } else { 0 };
        let kwarg = self.r.chance(1, 3);
        let mut first = true;
        let mut idx = 0;
        let mut default_seen = false;
        let sep = |g: &mut Gen, first: &mut bool| {
            if !*first {
                g.comma();
            }
            *first = false;
        };
        for _ in 0..n_pos {
            sep(self, &mut first);
            self.param(idx, depth, &mut default_seen, true);
            idx += 1;
        }
        if n_pos > 0 {
            sep(self, &mut first);
            self.emit("/");
        }
        for _ in 0..n_norm {
            sep(self, &mut first);
            self.param(idx, depth, &mut default_seen, true);
            idx += 1;
        }
        if star == 1 {
            sep(self, &mut first);
            self.emit("*");
            self.emit(&format!("args{idx}"));
            if self.r.chance(1, 3) {
                self.emit(":");
                self.gap(true);
                self.expr_operand(depth);
            }
        } else if star == 2 {
            sep(self, &mut first);
            self.emit("*");
        }
        for _ in 0..n_kw {
            sep(self, &mut first);
            let mut none = false;
            self.param(idx, depth, &mut none, false);
            idx += 1;
        }
        if kwarg {
            sep(self, &mut first);
            self.emit("**");
            self.emit(&format!("kw{idx}"));
        } else if !first && self.r.chance(1, 5) && star != 2 {
            self.comma();
        } else if !first && star == 2 && n_kw > 0 && self.r.chance(1, 5) {
            self.comma();
        }
        self.close(")");
    }

    fn param(&mut self, idx: u32, depth: u32, default_seen: &mut bool, sticky: bool) {
        let base = if self.r.chance(self.p_unicode, 100) { "é" } else { "p" };
        self.emit(&format!("{base}{idx}"));
        if self.r.chance(1, 3) {
            self.emit(":");
            self.gap(true);
            self.expr_operand(depth);
        }
        if (*default_seen && sticky) || self.r.chance(1, 3) {
            if sticky {
                *default_seen = true;
            }
            self.gap(false);
            self.emit("=");
            self.gap(false);
            self.expr(depth);
        }
    }

    fn decorators(&mut self, level: u32, depth: u32) {
        for _ in 0..self.r.below(3) {
            self.constructs.push("decorator");
            self.ind(level);
            self.emit("@");
            if self.r.chance(1, 2) {
                self.call(depth + 1);
            } else {
                self.emit_name();
                if self.r.chance(1, 2) {
                    self.emit(".");
                    let a = *self.r.pick::<&str>(ATTRS);
                    self.emit(a);
                }
            }
            self.end_line();
        }
    }

    pub fn stmt(&mut self, level: u32, depth: u32) {
        if depth >= self.max_depth {
            self.ind(level);
            self.simple_stmt(depth, true);
            self.end_line();
            return;
        }
        let d = depth;
        match self.r.below(30) {
            0..=9 => {
                self.ind(level);
                self.simple_stmt(d, true);
                if self.r.chance(1, 8) {
                    self.emit("; ");
                    self.simple_stmt(d, false);
                }
                self.end_line();
            }
            10 | 11 => {
                self.constructs.push("if");
                self.ind(level);
                self.emit("if");
                self.gap(true);
                self.expr(d + 1);
                self.block(level, d);
                for _ in 0..self.r.below(2) {
                    self.ind(level);
                    self.emit("elif");
                    self.gap(true);
                    self.expr(d + 1);
                    self.block(level, d);
                }
                if self.r.chance(1, 2) {
                    self.ind(level);
                    self.emit("else");
                    self.block(level, d);
                }
            }
            12 => {
                self.constructs.push("for");
                self.ind(level);
                if self.r.chance(1, 5) {
                    self.emit("async ");
                }
                self.emit("for ");
                self.target();
                self.emit(" in");
                self.gap(true);
                self.expr(d + 1);
                self.block(level, d);
                if self.r.chance(1, 3) {
                    self.ind(level);
                    self.emit("else");
                    self.block(level, d);
                }
            }
            13 => {
                self.constructs.push("while");
                self.ind(level);
                self.emit("while");
                self.gap(true);
                self.expr(d + 1);
                self.block(level, d);
                if self.r.chance(1, 3) {
                    self.ind(level);
                    self.emit("else");
                    self.block(level, d);
                }
            }
            14 | 15 => {
                let star = self.r.chance(1, 3);
                self.constructs.push(if star { "trystar" } else { "try" });
                self.ind(level);
                self.emit("try");
                self.block(level, d);
                let handlers = self.r.range(if star { 1 } else { 0 }, 2);
                for _ in 0..handlers {
                    self.ind(level);
                    self.emit(if star { "except*" } else { "except" });
                    if star || self.r.chance(3, 4) {
                        self.gap(true);
                        if self.r.chance(1, 3) {
                            self.open("(");
                            self.emit_name();
                            self.comma();
                            self.emit_name();
                            self.close(")");
                        } else {
                            self.emit_name();
                        }
                        if self.r.chance(1, 2) {
                            self.emit(" as ");
                            self.emit_name();
                        }
                    }
                    self.block(level, d);
                }
                if handlers > 0 && self.r.chance(1, 3) {
                    self.ind(level);
                    self.emit("else");
                    self.block(level, d);
                }
                if handlers == 0 || self.r.chance(1, 3) {
                    self.ind(level);
                    self.emit("finally");
                    self.block(level, d);
                }
            }
            16 | 17 => {
                self.constructs.push("with");
                self.ind(level);
                if self.r.chance(1, 5) {
                    self.emit("async ");
                }
                self.emit("with");
                self.gap(true);
                let paren = self.r.chance(1, 3);
                if paren {
                    self.constructs.push("with-parenthesised");
                    self.open("(");
                }
                let n = self.r.range(1, 3);
                for i in 0..n {
                    if i > 0 {
                        self.comma();
                    }
                    self.call(d + 1);
                    if self.r.chance(2, 3) {
                        self.gap(true);
                        self.emit("as");
                        self.gap(true);
                        self.emit_name();
                    }
                }
                if paren {
                    if self.r.chance(1, 3) {
                        self.comma();
                    }
                    self.close(")");
                }
                self.block(level, d);
            }
            18..=21 => {
                let is_async = self.r.chance(1, 4);
                self.constructs.push(if is_async { "asyncdef" } else { "def" });
                self.decorators(level, d);
                self.ind(level);
                if is_async {
                    self.emit("async ");
                }
                self.emit("def ");
                self.emit_name();
                if self.r.chance(1, 4) {
                    self.type_params();
                }
                self.params(d + 1);
                if self.r.chance(1, 3) {
                    self.emit(" ->");
                    self.gap(true);
                    self.expr_operand(d + 1);
                }
                self.block(level, d);
            }
            22..=25 => {
                self.constructs.push("class");
                self.decorators(level, d);
                self.ind(level);
                self.emit("class ");
                self.emit_name();
                if self.r.chance(1, 4) {
                    self.type_params();
                }
                if self.r.chance(4, 5) {
                    self.open("(");
                    let mut items: Vec<u8> = Vec::new(); // 0 base, 1 keyword, 2 *starred, 3 **kw
                    for _ in 0..self.r.below(3) {
                        items.push(0);
                    }
                    for _ in 0..self.r.below(3) {
                        items.push(*self.r.pick(&[1u8, 1, 2]));
                    }
                    if self.r.chance(1, 4) {
                        items.push(3);
                    }
                    let kw_first = items.iter().position(|&x| x == 1).zip(items.iter().rposition(|&x| x == 2)).is_some_and(|(k, s)| k < s);
                    if kw_first {
                        self.constructs.push("class-keyword-before-starred-base");
                    }
                    let n = items.len();
                    for (i, it) in items.into_iter().enumerate() {
                        if i > 0 {
                            self.comma();
                        }
                        match it {
                            0 => self.expr_operand(d + 1),
                            1 => {
                                self.emit_ascii_name();
                                self.emit(&format!("{i}"));
                                self.gap(false);
                                self.emit("=");
                                self.gap(false);
                                self.expr(d + 1);
                            }
                            2 => {
                                self.emit("*");
                                self.expr_operand(d + 1);
                            }
                            _ => {
                                self.emit("**");
                                self.expr_operand(d + 1);
                            }
                        }
                    }
                    if n > 0 && self.r.chance(1, 5) {
                        self.comma();
                    }
                    self.close(")");
                }
                self.block(level, d);
            }
            _ => self.match_stmt(level, d),
        }
    }

    fn pattern(&mut self, depth: u32) {
        if depth >= 2 {
            match self.r.below(4) {
                0 => self.emit_name(),
                1 => self.number(),
                2 => self.emit("_"),
                _ => self.emit("'s'"),
            }
            return;
        }
        match self.r.below(12) {
            0 => self.emit_name(),
            1 => self.number(),
            2 => {
                let c = *self.r.pick(&["None", "True", "False"]);
                self.emit(c);
            }
            3 => {
                self.emit_ascii_name();
                self.emit(".");
                self.emit_ascii_name();
            }
            4 | 5 => {
                self.constructs.push("match-mapping");
                self.open("{");
                let n = self.r.below(3);
                for i in 0..n {
                    if i > 0 {
                        self.comma();
                    }
                    match self.r.below(3) {
                        0 => self.emit("'k'"),
                        1 => self.number(),
                        _ => {
                            self.emit_ascii_name();
                            self.emit(".");
                            self.emit_ascii_name();
                        }
                    }
                    self.gap(false);
                    self.emit(":");
                    self.gap(false);
                    self.pattern(depth + 1);
                }
                if self.r.chance(1, 2) {
                    if n > 0 {
                        self.comma();
                    }
                    self.constructs.push("match-mapping-rest");
                    self.emit("**");
                    self.emit_ascii_name();
                }
                self.close("}");
            }
            6 | 7 => {
                self.constructs.push("match-class");
                self.emit_ascii_name();
                self.open("(");
                let np = self.r.below(3);
                let nk = self.r.below(3);
                for i in 0..np {
                    if i > 0 {
                        self.comma();
                    }
                    self.pattern(depth + 1);
                }
                for i in 0..nk {
                    if i > 0 || np > 0 {
                        self.comma();
                    }
                    self.emit_ascii_name();
                    self.emit(&format!("{i}"));
                    self.gap(false);
                    self.emit("=");
                    self.gap(false);
                    self.pattern(depth + 1);
                }
                self.close(")");
            }
            8 => {
                self.constructs.push("match-sequence");
                self.open("[");
                self.pattern(depth + 1);
                self.comma();
                if self.r.chance(1, 2) {
                    self.emit("*");
                    self.emit_ascii_name();
                } else {
                    self.pattern(depth + 1);
                }
                self.close("]");
            }
            9 => {
                self.constructs.push("match-or");
                self.open("(");
                self.pattern(depth + 1);
                self.gap(true);
                self.emit("|");
                self.gap(true);
                self.pattern(depth + 2);
                self.close(")");
            }
            10 => {
                self.constructs.push("match-as");
                self.open("(");
                self.pattern(depth + 2);
                self.gap(true);
                self.emit("as");
                self.gap(true);
                self.emit_ascii_name();
                self.emit("_");
                self.close(")");
            }
            _ => self.emit("_"),
        }
    }

    fn match_stmt(&mut self, level: u32, depth: u32) {
        self.constructs.push("match");
        self.ind(level);
        self.emit("match ");
        self.expr_operand(depth + 1);
        self.emit(":");
        self.end_line();
        for _ in 0..self.r.range(1, 3) {
            self.ind(level + 1);
            self.emit("case ");
            self.pattern(0);
            if self.r.chance(1, 3) {
                self.emit(" if");
                self.gap(true);
                self.expr_operand(depth + 1);
            }
            self.block(level + 1, depth);
        }
    }

    /// One very wide logical line (hundreds of columns), optionally with non-ASCII early on.
    fn wide_stmt(&mut self) {
        self.constructs.push("wide-line");
        self.emit_name();
        self.emit(" = [");
        let n = self.r.range(40, 120);
        for i in 0..n {
            if i > 0 {
                self.emit(", ");
            }
            if i == 1 && self.r.chance(1, 2) {
                self.emit("'é→😀'");
            } else if self.r.chance(1, 20) {
                self.call(self.max_depth);
            } else {
                self.number();
            }
        }
        self.emit("]");
        self.end_line();
    }

    /// Rare "more than 2^8 of something" programs: a counter or index narrower than it should be
    /// only shows beyond 255 (or 65 535) items.
    fn huge_stmt(&mut self) {
        self.constructs.push("huge-construct");
        let n = self.r.range(260, 420);
        match self.r.below(5) {
            0 => {
                // a call with hundreds of arguments: positional, then keywords and starred mixed
                self.emit_name();
                self.open("(");
                for i in 0..n {
                    if i > 0 {
                        self.comma();
                    }
                    match if i < 40 { 0 } else { self.r.below(4) } {
                        0 if i < 40 => self.number(),
                        1 | 0 => {
                            self.emit(&format!("k{i}"));
                            self.emit("=");
                            self.emit_name();
                        }
                        2 => {
                            self.emit("*");
                            self.emit_name();
                        }
                        _ => {
                            self.emit(&format!("kw{i}"));
                            self.emit(" = ");
                            self.number();
                        }
                    }
                }
                self.close(")");
                self.end_line();
            }
            1 => {
                // an f-string with hundreds of parts, implicitly concatenated with a second token
                self.emit_name();
                self.emit(" = (f'");
                for i in 0..n {
                    if i % 3 == 0 {
                        self.emit("t ");
                    }
                    self.emit("{");
                    self.emit_name();
                    if i % 7 == 0 {
                        self.emit(":>4");
                    }
                    self.emit("}");
                }
                self.emit("'");
                self.eol();
                self.emit("    f'{");
                self.emit_name();
                self.emit("!r}')");
                self.end_line();
            }
            2 => {
                // a dict display with hundreds of pairs and unpackings over many lines
                self.emit_name();
                self.emit(" = ");
                self.open("{");
                for i in 0..n {
                    if i > 0 {
                        self.comma();
                    }
                    if i % 17 == 3 {
                        self.emit("**");
                        self.emit_name();
                    } else {
                        self.emit(&format!("{i}"));
                        self.emit(": ");
                        self.emit_name();
                    }
                }
                self.close("}");
                self.end_line();
            }
            3 => {
                // hundreds of decorators on one class with keywords before a starred base
                for i in 0..n {
                    self.emit("@");
                    self.emit_name();
                    if i % 5 == 0 {
                        self.emit("(k=1, *a)");
                    }
                    self.end_line();
                }
                self.emit("class Huge(k=1, *b): pass");
                self.end_line();
            }
            _ => {
                // a function with hundreds of parameters with defaults and annotations
                self.emit("def huge(");
                self.bracket += 1;
                for i in 0..n {
                    if i > 0 {
                        self.comma();
                    }
                    self.emit(&format!("p{i}"));
                    if i % 4 == 0 {
                        self.emit(": ");
                        self.emit_name();
                    }
                    if i > 100 {
                        self.emit("=");
                        self.number();
                    }
                }
                self.bracket -= 1;
                self.emit("): pass");
                self.end_line();
            }
        }
    }

    pub fn module(&mut self, n_stmts: u64) {
        if self.r.chance(1, 40) {
            self.wide_stmt();
        }
        if self.r.chance(1, 150) {
            self.huge_stmt();
        }
        for _ in 0..n_stmts {
            if self.r.chance(1, 12) {
                if self.r.chance(1, 2) {
                    self.emit("# top-level comment é");
                }
                self.eol();
            }
            self.stmt(0, 0);
        }
    }
}

#[derive(Clone, Copy, Debug, PartialEq, Eq)]
pub enum PMode {
    Module,
    Interactive,
    Expression,
}

pub struct Program {
    pub source: String,
    pub mode: PMode,
    pub constructs: Vec<&'static str>,
}

/// Compose one program. Pure function of the generator state.
pub fn compose(r: &mut Rng, scale: u32) -> Program {
    let mode = match r.below(10) {
        0 => PMode::Expression,
        1 => PMode::Interactive,
        _ => PMode::Module,
    };
    let bom = r.chance(1, 10);
    let n = r.range(1, 3 * scale as u64 + 1);
    let drop_last_eol = r.chance(1, 4);
    let mut g = Gen::new(r);
    if bom {
        g.emit("\u{feff}");
    }
    match mode {
        PMode::Expression => {
            // an expression may span lines only inside brackets
            g.expr(0);
        }
        PMode::Interactive => {
            g.stmt(0, 1);
        }
        PMode::Module => g.module(n),
    }
    let mut source = std::mem::take(&mut g.out);
    let constructs = std::mem::take(&mut g.constructs);
    if drop_last_eol && mode == PMode::Module {
        // unterminated last line
        while source.ends_with('\n') || source.ends_with('\r') {
            source.pop();
        }
    }
    Program { source, mode, constructs }
}
