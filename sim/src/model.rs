//! Naive reference models. They share no code with /repo and are deliberately simple:
//! a byte-by-byte line splitter, row/column by counting characters from the line start.

/// One line of a text: `[start, end)` is the text without its line break,
/// `[start, full_end)` includes the break (CR, LF or CRLF, each counting once).
#[derive(Clone, Copy, Debug, PartialEq, Eq)]
pub struct MLine {
    pub start: usize,
    pub end: usize,
    pub full_end: usize,
}

/// Lines the way an iterator over lines sees them: an unterminated last line is a line,
/// a text ending in a break has no extra empty line, the empty text has no line.
pub fn split_lines(s: &str) -> Vec<MLine> {
    let b = s.as_bytes();
    let mut out = Vec::new();
    let mut start = 0usize;
    let mut i = 0usize;
    while i < b.len() {
        match b[i] {
            b'\n' => {
                out.push(MLine {
                    start,
                    end: i,
                    full_end: i + 1,
                });
                i += 1;
                start = i;
            }
            b'\r' => {
                let brk = if i + 1 < b.len() && b[i + 1] == b'\n' { 2 } else { 1 };
                out.push(MLine {
                    start,
                    end: i,
                    full_end: i + brk,
                });
                i += brk;
                start = i;
            }
            _ => i += 1,
        }
    }
    if start < b.len() {
        out.push(MLine {
            start,
            end: b.len(),
            full_end: b.len(),
        });
    }
    out
}

/// Number of line breaks (CR, LF, CRLF each once).
pub fn count_breaks(s: &str) -> usize {
    split_lines(s).iter().filter(|l| l.full_end > l.end).count()
}

/// Rows the way a line index sees them: `breaks + 1` rows; the last row may be empty.
/// Each row is `[start, full_end)`.
pub fn rows(s: &str) -> Vec<(usize, usize)> {
    let mut out: Vec<(usize, usize)> = split_lines(s).iter().map(|l| (l.start, l.full_end)).collect();
    let ends_with_break = s.ends_with('\n') || s.ends_with('\r');
    if s.is_empty() || ends_with_break {
        out.push((s.len(), s.len()));
    }
    out
}

pub const BOM: char = '\u{feff}';

/// 1-based row and 1-based character column of a byte offset that lies on a character
/// boundary. A leading BOM is not counted as a column (so offsets 0 and 3 of a
/// BOM-prefixed text are both column 1 of row 1).
pub fn row_col(s: &str, offset: usize) -> (u32, u32) {
    assert!(s.is_char_boundary(offset), "model: offset {offset} not on a char boundary");
    let rows = rows(s);
    let mut row = 0usize;
    for (i, &(st, _)) in rows.iter().enumerate() {
        if st <= offset {
            row = i;
        }
    }
    let mut st = rows[row].0;
    if row == 0 && s.starts_with(BOM) && offset >= BOM.len_utf8() {
        st = BOM.len_utf8();
    }
    let col = s[st..offset].chars().count();
    (row as u32 + 1, col as u32 + 1)
}

/// The rows of one text, computed once (same naive splitter), for repeated row/column queries.
pub struct RowTable<'a> {
    pub text: &'a str,
    pub rows: Vec<(usize, usize)>,
    bom: bool,
}

impl<'a> RowTable<'a> {
    pub fn new(text: &'a str) -> Self {
        RowTable {
            text,
            rows: rows(text),
            bom: text.starts_with(BOM),
        }
    }
    /// zero-based row containing `offset`
    pub fn row_of(&self, offset: usize) -> usize {
        self.rows.partition_point(|&(s, _)| s <= offset).saturating_sub(1)
    }
    /// same answer as [`row_col`]
    pub fn row_col(&self, offset: usize) -> (u32, u32) {
        assert!(self.text.is_char_boundary(offset), "model: offset {offset} not on a char boundary");
        let row = self.row_of(offset);
        let mut st = self.rows[row].0;
        if row == 0 && self.bom && offset >= BOM.len_utf8() {
            st = BOM.len_utf8();
        }
        let col = self.text[st..offset].chars().count();
        (row as u32 + 1, col as u32 + 1)
    }
}

/// Is `offset` a position between the CR and the LF of a CRLF pair?
pub fn inside_crlf(s: &str, offset: usize) -> bool {
    let b = s.as_bytes();
    offset > 0 && offset < b.len() && b[offset - 1] == b'\r' && b[offset] == b'\n'
}

/// All char-boundary offsets `0..=len`.
pub fn boundaries(s: &str) -> Vec<usize> {
    let mut v: Vec<usize> = s.char_indices().map(|(i, _)| i).collect();
    v.push(s.len());
    v
}

/// Half-open interval over u64 with set semantics: the reference for `TextRange`.
#[derive(Clone, Copy, Debug, PartialEq, Eq)]
pub struct Iv {
    pub s: u64,
    pub e: u64,
}

impl Iv {
    pub fn is_empty(self) -> bool {
        self.s >= self.e
    }
    pub fn contains(self, o: u64) -> bool {
        self.s <= o && o < self.e
    }
    pub fn subset_of(self, other: Iv) -> bool {
        // set reading: every offset of self is an offset of other
        self.is_empty() || (other.s <= self.s && self.e <= other.e)
    }
    /// set intersection as an interval, None when empty
    pub fn inter(self, other: Iv) -> Option<Iv> {
        let s = self.s.max(other.s);
        let e = self.e.min(other.e);
        if s < e {
            Some(Iv { s, e })
        } else {
            None
        }
    }
}

#[cfg(test)]
mod tests {
    use super::*;
    #[test]
    fn lines() {
        assert_eq!(split_lines(""), vec![]);
        assert_eq!(
            split_lines("a\r\nb\rc\n"),
            vec![
                MLine { start: 0, end: 1, full_end: 3 },
                MLine { start: 3, end: 4, full_end: 5 },
                MLine { start: 5, end: 6, full_end: 7 }
            ]
        );
        assert_eq!(rows("").len(), 1);
        assert_eq!(rows("a\n").len(), 2);
        assert_eq!(rows("\r\n\r").len(), 3);
        assert_eq!(row_col("\u{feff}ab", 0), (1, 1));
        assert_eq!(row_col("\u{feff}ab", 3), (1, 1));
        assert_eq!(row_col("\u{feff}ab", 4), (1, 2));
        assert_eq!(row_col("é\r\nx", 3), (1, 3)); // between CR and LF
        assert_eq!(row_col("é\r\nx", 4), (2, 1));
        assert_eq!(row_col("a\n", 2), (2, 1));
        for t in ["", "a", "\u{feff}a\r\nb\rc\n", "é\n\n", "\r\n\r"] {
            let rt = RowTable::new(t);
            for o in boundaries(t) {
                assert_eq!(rt.row_col(o), row_col(t, o), "{t:?} {o}");
            }
        }
    }
}
