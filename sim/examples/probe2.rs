use rustpython_parser::{parse, Mode};
fn main() {
    let src = std::env::args().nth(1).unwrap();
    let src = src.replace("\\n", "\n").replace("\\r", "\r").replace("\\B", "\u{feff}");
    match parse(&src, Mode::Module, "<p>") {
        Ok(m) => println!("{:#?}", m),
        Err(e) => println!("ERR {:?}", e),
    }
}
