use rustpython_parser::{parse, Mode};
use rustpython_ast::{self as ast, fold::Fold};
use rustpython_parser_core::source_code::{LinearLocator, RandomLocator};
fn main() {
    let src = std::env::args().nth(1).unwrap();
    let src = src.replace("\\n", "\n").replace("\\r", "\r").replace("\\B", "\u{feff}");
    match parse(&src, Mode::Module, "<p>") {
        Ok(m) => {
            println!("{:#?}", m);
            let r = RandomLocator::new(&src).fold(m.clone()).unwrap();
            println!("RANDOM {:?}", r);
            let l = std::panic::catch_unwind(|| LinearLocator::new(&src).fold(m.clone()).unwrap());
            match l { Ok(l) => println!("LINEAR {:?}\nEQ {}", l, format!("{:?}", l) == format!("{:?}", r)), Err(_) => println!("LINEAR PANIC") }
        }
        Err(e) => println!("ERR {:?}", e),
    }
}
