use verif_sim::{c13b, harness::{Layer, run_seed_for}};
use rustpython_parser::{parse, Mode};
use verif_sim::pygen::PMode;
use std::collections::BTreeMap;
fn main() {
    let n: u64 = std::env::args().nth(1).unwrap().parse().unwrap();
    let show: usize = std::env::args().nth(2).unwrap().parse().unwrap();
    let l = c13b::FoldLayer;
    let mut by: BTreeMap<String, (u64, String)> = BTreeMap::new();
    let mut rej = 0;
    for run in 0..n {
        let c = l.generate(run_seed_for(&l, 1, 0, run), 0, 1);
        let m = match c.mode { PMode::Module => Mode::Module, PMode::Interactive => Mode::Interactive, PMode::Expression => Mode::Expression };
        if let Err(e) = parse(&c.source, m, "x") {
            rej += 1;
            let o = e.offset.to_usize();
            let lo = c.source[..o.min(c.source.len())].char_indices().rev().nth(30).map_or(0, |x| x.0);
            let hi = (o + 20).min(c.source.len());
            let mut hi2 = hi; while !c.source.is_char_boundary(hi2) { hi2 -= 1; }
            let ctx = format!("{:?} <<HERE>> {:?}", &c.source[lo..o.min(c.source.len())], &c.source[o.min(c.source.len())..hi2]);
            let key = format!("{:?}|{}", c.mode, format!("{}", e.error).chars().take(60).collect::<String>());
            let ent = by.entry(key).or_insert((0, ctx));
            ent.0 += 1;
        }
    }
    println!("rejected {rej}/{n}");
    let mut v: Vec<_> = by.into_iter().collect();
    v.sort_by_key(|x| std::cmp::Reverse(x.1.0));
    for (k, (n, ctx)) in v.into_iter().take(show) { println!("{n:6} {k}\n        {ctx}"); }
}
