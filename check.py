#!/usr/bin/env python3
"""Orchestrator of the deterministic-simulation checks (see DESIGN.md).

  check.py C13|C15 quick|thorough     run the check of one property, write evidence/<id>.json
  check.py replay <replay.json>       re-execute a replay file (all builds it applies to)
  check.py setup                      build everything once (MANIFEST.setup_cmd)
  check.py determinism [n_seeds]      prove that a seed is one execution (see DESIGN.md)

Exit codes: 0 held (KNOWN-FINDING lines allowed) / 1 VIOLATION / 2 harness error.
All randomness comes from VERIF_SEED (default 1); wall-clock is read only to bound the
thorough tier and to report throughput.
"""
import json
import os
import subprocess
import sys
import time

ROOT = os.path.dirname(os.path.abspath(__file__))
SIM = os.path.join(ROOT, "sim")
# mutant / seeded-change runs set VERIF_EVIDENCE_DIR so that they never overwrite the evidence
# of the unchanged tree
EVID = os.environ.get("VERIF_EVIDENCE_DIR") or os.path.join(ROOT, "evidence")
PARTS = os.path.join(EVID, "parts")
REPLAYS = os.environ.get("VERIF_REPLAY_DIR_OVERRIDE") or os.path.join(ROOT, "replays")
KNOWN = os.path.join(ROOT, "known_findings.txt")
ENV = dict(os.environ, CARGO_NET_OFFLINE="true", VERIF_REPLAY_DIR=REPLAYS)
NCPU = os.cpu_count() or 16

BUILDS = {
    # name: (cargo args, target dir, binary)
    "rel": (["--release"], "target-rel", "target-rel/release/sim"),
    "dbg": (["--profile", "dbg"], "target-dbg", "target-dbg/dbg/sim"),
    "rel+allranges": (["--release", "--features", "all-nodes-with-ranges"], "target-all", "target-all/release/sim"),
}


def log(msg):
    print(msg, flush=True)


def build(names):
    """Rebuild the simulator (and with it /repo's crates, hooks on) from the current working tree."""
    procs = []
    for n in names:
        args, tdir, _ = BUILDS[n]
        cmd = ["cargo", "build", "--offline", "--quiet"] + args + ["--target-dir", tdir, "--bin", "sim"]
        procs.append((n, subprocess.Popen(cmd, cwd=SIM, env=ENV, stdout=subprocess.PIPE, stderr=subprocess.STDOUT, text=True)))
    ok = True
    for n, p in procs:
        out, _ = p.communicate()
        if p.returncode != 0:
            ok = False
            errs = [l for l in out.splitlines() if l.startswith("error") or "-->" in l]
            log(f"HARNESS-ERROR build {n} failed:\n" + "\n".join(out.splitlines()[-40:] if not errs else errs[:40]))
    return ok


def load_known():
    known, fixed = [], []
    if os.path.exists(KNOWN):
        for line in open(KNOWN, encoding="utf-8"):
            line = line.strip()
            if not line or line.startswith("#"):
                continue
            if line.startswith("known:"):
                fields = line[len("known:"):].split()
                ent = {"what": []}
                for f in fields:
                    if f.startswith("property=") and "property" not in ent:
                        ent["property"] = f.split("=", 1)[1]
                    elif f.startswith("key=") and "key" not in ent:
                        ent["key"] = f.split("=", 1)[1]
                    elif f.startswith("builds=") and "builds" not in ent:
                        ent["builds"] = f.split("=", 1)[1].split(",")
                    else:
                        ent["what"].append(f)
                ent["what"] = " ".join(ent["what"])
                known.append(ent)
            elif line.startswith("fixed:"):
                fixed.append(line)
    return known, fixed


def run_batch(build_name, layer, config, seed, runs, secs, scale, tag):
    _, _, binary = BUILDS[build_name]
    os.makedirs(PARTS, exist_ok=True)
    out = os.path.join(PARTS, f"{tag}-{layer}-c{config}-{build_name.replace('+', '_')}.json")
    if os.path.exists(out):
        os.remove(out)
    cmd = [os.path.join(SIM, binary), "run", "--layer", layer, "--config", str(config), "--seed", str(seed),
           "--runs", str(runs), "--scale", str(scale), "--workers", str(NCPU), "--samples", "2", "--out", out]
    if secs:
        cmd += ["--secs", str(secs)]
    p = subprocess.run(cmd, cwd=ROOT, env=ENV, stdout=subprocess.PIPE, stderr=subprocess.PIPE, text=True)
    for l in p.stdout.splitlines():
        if l.startswith(("DONE", "FAILURE")):
            log("  " + l)
    part = None
    if os.path.exists(out):
        part = json.load(open(out, encoding="utf-8"))
    if p.returncode == 2 or part is None:
        log(f"HARNESS-ERROR {layer} config={config} build={build_name}: exit {p.returncode}\n{p.stderr[-2000:]}")
        return None, True
    if p.returncode not in (0, 1):
        log(f"HARNESS-ERROR {layer} config={config} build={build_name}: exit {p.returncode}\n{p.stderr[-2000:]}")
        return None, True
    return part, False


# ---------------------------------------------------------------------------------------------
# per-property plans: (layer, configs, quick runs, thorough seconds per batch, thorough scale)

PLANS = {
    "C15": {
        "layers": [("c15-hist", [0, 1], 2_000_000, 60, 4)],
        "builds": {"quick": ["rel", "dbg"], "thorough": ["rel", "dbg"]},
        "miri": True,
    },
    "C13": {
        "layers": [("c13-cursor", [0, 1], 2_000_000, 30, 4), ("c13-fold", [0, 1], 150_000, 90, 2)],
        "builds": {"quick": ["rel", "dbg"], "thorough": ["rel", "dbg", "rel+allranges"]},
        "miri": False,
    },
}

RULES = {
    "C15": "one evaluation = one simulated run: a seeded text (<=12 pieces over LF, CR, CRLF, BOM, ASCII, 2/3/4-byte "
           "characters; 25% dense small scope over a 6-symbol alphabet; 5% long) + base offset class + a seeded history "
           "of <=24 operations (next/next_back/nth/nth_back/after-None, index queries through cloned/dropped/switched "
           "handles incl. a lazily indexed SourceFile, slicing, range algebra on ranges the history produced) checked "
           "step by step against the naive model; config 1 adds the faults (iterator restart at the two surviving "
           "offsets, torn restart incl. between CR and LF, by-value consumption last/count/rev, base offsets next to "
           "2^32). distinct_nontrivial = distinct run fingerprints among runs whose text has a line break or a "
           "multi-byte character and whose history pulled the iterator at least once (per config, max over builds: "
           "the two builds execute the same cases).",
    "C13": "one evaluation = one simulated run. cursor layer: seeded text + seeded legal call history (<=32 ops: "
           "non-decreasing locate, locate_error, interleaved locate_only look-aheads, locator rebuilt midway, offset 0 "
           "in front of a BOM) on the real LinearLocator/RandomLocator, every answer compared with the naive row/column "
           "model; fold layer: seeded composed program (layout randomised: line breaks inside brackets, LF/CRLF/CR, "
           "BOM, non-ASCII, continuations) -> real parse -> real LinearLocator/RandomLocator folds, recorded locate "
           "history checked for a cursor that never moves backwards, every node compared with the model; config 1 "
           "damages programs (truncate / delete a chunk) to drive locate_error. distinct_nontrivial = distinct run "
           "fingerprints among runs that crossed a line or touched a non-ASCII line (cursor) / programs spanning lines "
           "or non-ASCII (fold), per layer and config, max over builds.",
}

ASSUMPTIONS = {
    "C15": [
        "the naive model in sim/src/model.rs (byte-by-byte line splitter, row/column by counting characters, u64 intervals) is the reference",
        "sampling, not proof: seeded search over texts and histories; coverage of the small-scope space is measured, not claimed complete",
        "for the pure clauses (index queries, range algebra) the seed only chooses inputs; the history-dependent part is the double-ended iterator, its restarts and the shared lazily built index",
        "hook verif_state() reports the iterator's three fields truthfully (read-only accessor behind feature verif-hooks)",
        "simulated time: none - the system under test has no clocks, timers or I/O; logical steps are counted instead",
    ],
    "C13": [
        "the naive row/column model in sim/src/model.rs is the reference (CR, LF, CRLF one break each; multi-byte = one column; leading BOM not counted)",
        "programs come from a template composer (sim/src/pygen.rs): node kinds it never emits are not exercised; the evidence lists the kinds seen",
        "whether the parser's byte ranges are the true source extents is property C02 and is not judged here; trees whose ranges are no source positions are reported as such",
        "the locate-call recorder (feature verif-hooks) records every locate/locate_only call before any assertion runs",
        "simulated time: none - no clocks, timers or I/O in the system under test; logical steps are counted instead",
    ],
}


def check(prop, tier, seed):
    t0 = time.time()
    plan = PLANS[prop]
    builds = plan["builds"][tier]
    log(f"SEED {seed} property={prop} tier={tier} builds={','.join(builds)}")
    if not build(builds):
        return 2
    known, fixed = load_known()
    parts, harness_error = [], False
    for layer, configs, quick_runs, secs, scale in plan["layers"]:
        for b in builds:
            for c in configs:
                part, herr = run_batch(b, layer, c, seed, quick_runs if tier == "quick" else quick_runs // 4,
                                       secs if tier == "thorough" else None, scale if tier == "thorough" else 1, prop)
                harness_error |= herr
                if part:
                    parts.append(part)
    miri = None
    if plan["miri"]:
        # thread schedules of the shared lazily built index: a few in the quick tier, many (plus
        # the history layer under the interpreter) in the thorough tier
        miri = run_miri(seed, tier)
        if miri is None:
            harness_error = True

    # ------------------------------------------------------------------ verdict
    violations, known_hits = [], {}
    for p in parts:
        for f in p["failures"]:
            hit = None
            for k in known:
                if k.get("property") == prop and k.get("key") == f["key"] and ("builds" not in k or p["build"] in k["builds"]):
                    hit = k
                    break
            if hit:
                known_hits.setdefault(f["key"], (hit, f, p["build"]))
            else:
                violations.append((f, p))
    if miri and miri.get("violations"):
        for v in miri["violations"]:
            violations.append(({"key": v["key"], "replay": v["replay"], "detail": v["detail"]}, {"build": "miri", "layer": "threads"}))
    for key, (k, f, b) in sorted(known_hits.items()):
        log(f"KNOWN-FINDING: property={prop} {key} {k['what']} (replay={f['replay']}, build={b})")
    for f, p in violations:
        log(f"  violation key={f['key']} build={p['build']} layer={p['layer']} detail={f.get('detail', '')[:300]}")
        log(f"VIOLATION property={prop} replay={f['replay']}")

    # ------------------------------------------------------------------ evidence
    wall = time.time() - t0
    evaluations = sum(p["runs"] for p in parts)
    distinct = {}
    for p in parts:
        k = (p["layer"], p["config"])
        distinct[k] = max(distinct.get(k, 0), p["distinct_nontrivial"])
    samples = []
    for p in parts:
        if p["build"] == builds[0]:
            for s in p["samples"][:2]:
                samples.append({"layer": p["layer"], "config": p["config"], "run": s["run"], "case": s["case"]})
    batches, faults, probes, ops = [], {}, {}, {}
    for p in parts:
        batches.append({
            "layer": p["layer"], "config": p["config"], "build": p["build"], "runs": p["runs"], "steps": p["steps"],
            "wall_s": round(p["wall_s"], 2), "runs_per_hour": int(p["runs"] / max(p["wall_s"], 1e-3) * 3600),
            "batch_digest": p["batch_digest"], "abstract_states": p["abstract_states"],
            "distinct_nontrivial": p["distinct_nontrivial"], "violating_runs": p["violating_runs"],
            "set_sizes": p.get("set_sizes", {}),
        })
        for name, n in p["counters"].items():
            tgt = faults if name.startswith("fault_") else probes if name.startswith("probe_") else ops
            key = f"{p['layer']}.{name}"
            tgt[key] = tgt.get(key, 0) + n
    sets = {}
    for p in parts:
        for k, v in p.get("sets", {}).items():
            sets.setdefault(f"{p['layer']}.{k}", set()).update(v)
    coverage = {
        "evaluations": evaluations,
        "distinct_nontrivial": sum(distinct.values()),
        "rule": RULES[prop],
        "samples": samples[:8],
        "simulated_steps": sum(p["steps"] for p in parts),
        "simulated_time": "none (the system under test has no clock, timer or I/O); logical steps counted",
        "runs_per_hour": int(evaluations / max(sum(p["wall_s"] for p in parts), 1e-3) * 3600),
        "seeds_per_hour": int(evaluations / max(sum(p["wall_s"] for p in parts), 1e-3) * 3600),
        "seeds_note": "every run has its own derived seed, so seeds per hour = runs per hour (batch wall time only, builds excluded)",
        "process_isolation": {
            "chunks": sum(p.get("chunks", 0) for p in parts),
            "what": "every chunk of consecutive runs executed in a fresh child process; replay files verified in a fresh process before being reported",
        },
        "distinct_interleavings_measure": {k: v for p in parts for k, v in p.get("set_sizes", {}).items() if "interleav" in k} or None,
        "seeds": f"VERIF_SEED={seed}; run i of a batch uses derive(seed, layer, config, i)",
        "builds": builds,
        "batches": batches,
        "faults_fired": faults,
        "probes_hit": probes,
        "operations": ops,
        "abstract_states_max": max([p["abstract_states"] for p in parts], default=0),
        "sets": {k: sorted(v) for k, v in sets.items()},
        "real_vs_stub": "all code under test is the repository's real code (no stubs); the reference model and the program composer are harness code",
        "known_findings_hit": [f"{key}" for key in sorted(known_hits)],
        "fixed_entries": fixed,
    }
    if prop == "C15":
        small = max([p.get("set_sizes", {}).get("small_texts", 0) for p in parts], default=0)
        coverage["small_scope_texts_visited"] = f"{small} of 1555 texts of <=4 symbols over {{LF, CR, a, e-acute, 4-byte emoji, BOM}} (max over batches)"
    if miri:
        coverage["miri_thread_layer"] = {k: v for k, v in miri.items() if k != "violations"}
    ev = {
        "property_id": prop,
        "tier": tier,
        "seed": seed,
        "level": "exploration",
        "coverage": coverage,
        "assumptions": ASSUMPTIONS[prop],
        "wall_s": round(wall, 2),
        "violations": len(violations),
    }
    os.makedirs(EVID, exist_ok=True)
    for name in (f"{prop}.json", f"{prop}.{tier}.json"):
        # <id>.json is what the harness reads; <id>.<tier>.json keeps the latest run of each tier
        with open(os.path.join(EVID, name), "w", encoding="utf-8") as fh:
            json.dump(ev, fh, indent=1, ensure_ascii=False)
            fh.write("\n")
    log(f"RESULT property={prop} tier={tier} evaluations={evaluations} violations={len(violations)} known_findings={len(known_hits)} wall={wall:.1f}s")
    if harness_error:
        return 2
    if violations:
        return 1
    if evaluations == 0:
        log("HARNESS-ERROR nothing was evaluated")
        return 2
    return 0


# ---------------------------------------------------------------------------------------------
# Miri thread layer (C15, thorough tier)

def miri_found_something(output):
    """Did the interpreted program itself fail (assertion, panic, UB, data race, deadlock) — as
    opposed to cargo/miri failing to build or start?"""
    marks = ("panicked at", "Undefined Behavior", "data race", "deadlock", "MIRI-HIST-VIOLATION", "the evaluated program")
    return any(m in output for m in marks)


def run_miri(seed, tier="thorough"):
    d = os.path.join(ROOT, "miri-threads")
    if not os.path.isdir(d):
        return {"skipped": "miri-threads crate not present"}
    n_seeds = int(os.environ.get("VERIF_MIRI_SEEDS", "48" if tier == "thorough" else "16"))
    env = dict(ENV, MIRIFLAGS=f"-Zmiri-many-seeds=0..{n_seeds} -Zmiri-preemption-rate=0.3 -Zmiri-disable-isolation")
    t0 = time.time()
    scripts = 12 if tier == "thorough" else 4
    total, viol = 0, []
    # the quick tier takes the scripts whose texts are non-ASCII (first column computation races)
    # (script 3 has one physical line of several KiB: caches that only engage far into a line)
    script_ids = list(range(scripts)) if tier == "thorough" else [4, 5, 6, 7, 3]
    for script in script_ids:
        cmd = ["cargo", "+nightly", "miri", "run", "--offline", "--quiet", "--bin", "threads", "--", str(seed), str(script)]
        # the long-line scripts (3, 9) cost ~8 s per schedule under the interpreter: fewer of them
        seeds_here = n_seeds if script % 6 != 3 else max(3, n_seeds // 5)
        env_here = dict(env, MIRIFLAGS=f"-Zmiri-many-seeds=0..{seeds_here} -Zmiri-preemption-rate=0.3 -Zmiri-disable-isolation")
        p = subprocess.run(cmd, cwd=d, env=env_here, stdout=subprocess.PIPE, stderr=subprocess.PIPE, text=True)
        total += seeds_here
        if p.returncode != 0 and not miri_found_something(p.stdout + p.stderr):
            # the tool itself failed (toolchain, sysroot, compile error): a harness error, never a verdict
            log(f"HARNESS-ERROR miri thread layer could not run (script {script}):\n" + (p.stdout + p.stderr)[-1500:])
            return None
        if p.returncode != 0:
            os.makedirs(REPLAYS, exist_ok=True)
            path = os.path.join(REPLAYS, f"C15-threads-miri-s{seed}-script{script}.json")
            tail = (p.stdout + p.stderr)[-3000:]
            failing = [l for l in (p.stdout + p.stderr).splitlines() if "seed" in l.lower()][:5]
            json.dump({"property": "C15", "layer": "threads", "verif_seed": seed, "script": script,
                       "miri_flags": env["MIRIFLAGS"], "failing_seed_lines": failing,
                       "replay_cmd": f"cd {d} && MIRIFLAGS='-Zmiri-seed=<n> -Zmiri-preemption-rate=0.3 -Zmiri-disable-isolation' cargo +nightly miri run --offline --bin threads -- {seed} {script}",
                       "output_tail": tail}, open(path, "w"), indent=1)
            viol.append({"key": f"thread-schedule@script{script}", "replay": path, "detail": tail[-400:]})
            log(f"  miri script {script}: FAILED")
        else:
            log(f"  miri script {script}: {seeds_here} schedules ok")
    # the history layer itself under the interpreter (UB detection on every explored history)
    hist_runs = int(os.environ.get("VERIF_MIRI_HIST_RUNS", "150"))
    hist = {}
    env2 = dict(ENV, MIRIFLAGS="-Zmiri-disable-isolation")
    for config in ((0, 1) if tier == "thorough" else ()):
        cmd = ["cargo", "+nightly", "miri", "run", "--offline", "--quiet", "--bin", "hist", "--", str(seed), str(hist_runs), str(config)]
        p = subprocess.run(cmd, cwd=d, env=env2, stdout=subprocess.PIPE, stderr=subprocess.PIPE, text=True)
        if p.returncode != 0 and not miri_found_something(p.stdout + p.stderr):
            log(f"HARNESS-ERROR miri history layer could not run (config {config}):\n" + (p.stdout + p.stderr)[-1500:])
            return None
        if p.returncode != 0:
            os.makedirs(REPLAYS, exist_ok=True)
            path = os.path.join(REPLAYS, f"C15-hist-miri-s{seed}-c{config}.json")
            tail = (p.stdout + p.stderr)[-4000:]
            json.dump({"property": "C15", "layer": "threads", "what": "history layer under Miri", "verif_seed": seed, "config": config,
                       "replay_cmd": f"cd {d} && MIRIFLAGS=-Zmiri-disable-isolation cargo +nightly miri run --offline --bin hist -- {seed} {hist_runs} {config}",
                       "output_tail": tail}, open(path, "w"), indent=1)
            viol.append({"key": f"miri-hist@config{config}", "replay": path, "detail": tail[-400:]})
            log(f"  miri hist config {config}: FAILED")
        else:
            line = [l for l in p.stdout.splitlines() if l.startswith("ok ")]
            hist[f"config{config}"] = line[-1] if line else "ok"
            log(f"  miri hist config {config}: {hist[f'config{config}']}")
    return {"schedules": total, "scripts": scripts, "hist_layer_under_miri": hist, "miri_seeds_per_script": n_seeds, "threads": "2-3 real std threads",
            "wall_s": round(time.time() - t0, 1), "violations": viol,
            "what": "real once_cell::sync::OnceCell + std::sync::Arc code of SourceFile/LineIndex under Miri's seeded scheduler, data-race and UB detection on"}


# ---------------------------------------------------------------------------------------------

def replay(path):
    if not os.path.exists(path):
        log(f"HARNESS-ERROR no such replay file {path}")
        return 2
    j = json.load(open(path, encoding="utf-8"))
    if j.get("layer") == "threads":
        log("thread-layer replay: " + j.get("replay_cmd", ""))
        log(f"VIOLATION property=C15 replay={path}")
        return 1
    b = j.get("build", "rel")
    builds = [b] + [x for x in ("rel", "dbg") if x != b and b in ("rel", "dbg")]
    if not build(builds):
        return 2
    rc = 0
    for bn in builds:
        try:
            p = subprocess.run([os.path.join(SIM, BUILDS[bn][2]), "replay", path], cwd=ROOT, env=ENV, stdout=subprocess.PIPE, stderr=subprocess.PIPE, text=True, timeout=180)
        except subprocess.TimeoutExpired:
            log(f"[build {bn}]\n  REPRODUCED the replay did not finish within 180 s (hang)")
            log(f"VIOLATION property={j.get('property')} replay={path}")
            rc = max(rc, 1)
            continue
        if p.returncode not in (0, 1, 2):
            log(f"[build {bn}]\n  REPRODUCED the replay process died with status {p.returncode} (crash)\n{p.stderr[-600:]}")
            log(f"VIOLATION property={j.get('property')} replay={path}")
            rc = max(rc, 1)
            continue
        log(f"[build {bn}]")
        for l in p.stdout.splitlines():
            log("  " + l if not l.startswith("VIOLATION") else l)
        if p.returncode == 2:
            log(p.stderr[-1000:])
            return 2
        rc = max(rc, p.returncode)
    return rc


def determinism(n_seeds):
    """Each seed twice in separate processes, at worker counts 1, 4 and 16, both builds:
    the batch fingerprint and all counters must be identical."""
    if not build(["rel", "dbg"]):
        return 2
    # more runs than one chunk holds, so that several child processes and workers are involved
    layers = [("c15-hist", 50000), ("c13-cursor", 50000), ("c13-fold", 3500)]
    bad = 0
    total = 0
    for seed in range(1, n_seeds + 1):
        for layer, runs in layers:
            for config in (0, 1):
                seen = {}
                for bn in ("rel", "dbg"):
                    for workers in (1, 4, 16, 16):
                        cmd = [os.path.join(SIM, BUILDS[bn][2]), "digest", "--layer", layer, "--config", str(config), "--seed", str(seed),
                               "--runs", str(runs), "--workers", str(workers)]
                        out = subprocess.run(cmd, cwd=ROOT, env=ENV, stdout=subprocess.PIPE, text=True).stdout
                        line = [l for l in out.splitlines() if l.startswith("DIGEST")]
                        total += 1
                        if not line:
                            log(f"HARNESS-ERROR no digest from {' '.join(cmd)}")
                            return 2
                        fields = dict(f.split("=", 1) for f in line[0].split()[1:])
                        # the cursor/hist layers execute identically in both builds; fingerprints of
                        # failing runs may differ between builds (panic text), so compare per build
                        key = (bn,)
                        val = (fields["batch"], fields["stats"], fields["violating"])
                        if key in seen and seen[key] != val:
                            bad += 1
                            log(f"NONDETERMINISM seed={seed} layer={layer} config={config} build={bn} workers={workers}: {seen[key]} vs {val}")
                        seen.setdefault(key, val)
        if seed % 10 == 0:
            log(f"  {seed} seeds, {total} processes, {bad} divergences")
    log(f"DETERMINISM seeds={n_seeds} processes={total} divergences={bad}")
    return 0 if bad == 0 else 2


def main():
    args = sys.argv[1:]
    if not args:
        print(__doc__)
        return 2
    seed = int(os.environ.get("VERIF_SEED", "1") or "1")
    if args[0] == "setup":
        ok = build(["rel", "dbg", "rel+allranges"])
        return 0 if ok else 2
    if args[0] == "replay":
        return replay(args[1])
    if args[0] == "determinism":
        return determinism(int(args[1]) if len(args) > 1 else 50)
    prop = args[0]
    tier = args[1] if len(args) > 1 else os.environ.get("VERIF_TIER", "quick")
    if prop not in PLANS or tier not in ("quick", "thorough"):
        print(__doc__)
        return 2
    return check(prop, tier, seed)


if __name__ == "__main__":
    sys.exit(main())
