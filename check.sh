#!/bin/sh
# ./check.sh <C13|C15> <quick|thorough> | replay <file> | setup | determinism [n]
cd "$(dirname "$0")" && exec python3 check.py "$@"
